#!/usr/bin/env python3
"""Regenerates DESIGN.md §10.5 (detection table) from mutants.log (my corpus) and seeded/*/meta.json."""
import json, glob, os, re, ast, sys
log = sys.argv[1] if len(sys.argv) > 1 else '/verif/evidence_mutants.log'
rows = []
if os.path.exists(log):
    for line in open(log):
        if line.startswith("('") and not re.match(r"\('c\d\d-(s[ab]|w\d[a-d])-", line):
            t = ast.literal_eval(line.strip())
            cls = t[4].replace('violation class=', '').split(' ')[0]
            if cls.startswith('VIOLATION'):
                cls = re.search(r'/([a-z-]+)-[0-9a-f]+\.json', t[4]).group(1)
            rows.append((t[0], t[1], cls, t[3]))
seeded = sorted(glob.glob('/verif/seeded/*'))
missed = sum(1 for d in seeded if 'MISSED' in json.load(open(d + '/meta.json'))['violation_class'] or 'HUNG' in json.load(open(d + '/meta.json'))['violation_class'])
md = "### 10.5 Which checks catch which changes\n\n"
md += ("All changes compile and pass the repository's 77-test suite. `mutants/*.patch` are my own (written from the properties' "
       "`why_tests_cant` and from reading the code); `seeded/*/` are the %d changes written in ten waves by independent sub-agents that saw only a "
       "property's text (from the second wave on also one-line descriptions of earlier changes, to avoid repeats) and a scratch worktree. Each was "
       "confirmed by me in a fresh worktree (`tools/confirm_seeded.sh`: suite passes with the change, the agent's demonstration fails with it and "
       "passes without) before I ran my checks on it with `tools/mutant_run.sh` (patch applied to a scratch copy through `VERIF_REPO`; /repo is never "
       "touched). Every one is now detected by the **quick** tier of the named property; `python3 check.py --selftest mutants` re-runs the whole table.\n\n" % len(seeded))
md += "**My corpus (%d):**\n\n| change | property | violation class | quick time |\n|---|---|---|---|\n" % len(rows)
for r in rows:
    md += "| `mutants/%s.patch` | %s | %s | %s |\n" % r
md += "\n**Sub-agent changes (%d; %d of them were MISSED by the version of the check that existed when they arrived — the check was then strengthened, see below):**\n\n| change | property | what it needs to manifest | caught as |\n|---|---|---|---|\n" % (len(seeded), missed)
for d in seeded:
    m = json.load(open(d + '/meta.json'))
    md += "| `seeded/%s` | %s | %s | %s |\n" % (os.path.basename(d), "+".join(m['caught_by']), m['needs_to_manifest'].replace('|', '/'), m['violation_class'].replace('|', '/'))
md += open('/verif/tools/lessons.md').read()
s = open('/verif/DESIGN.md').read()
if '### 10.5' in s:
    s = s[:s.index('### 10.5')]
open('/verif/DESIGN.md', 'w').write(s.rstrip() + "\n\n" + md)
print(len(rows), len(seeded), missed)
