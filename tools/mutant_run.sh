#!/bin/bash
# usage: mutant_run.sh <patch-file> <property> [tier] — applies a patch to a scratch
# copy of /repo (never to /repo itself), runs the property's check against the
# copy via VERIF_REPO, removes the copy. Replays/evidence go to a scratch dir.
set -u
patch=$(readlink -f "$1"); prop=$2; tier=${3:-quick}
d=$(mktemp -d /var/tmp/mut-XXXXXX)
rsync -a --exclude .git /repo/ "$d/repo/"
( cd "$d/repo" && git init -q . 2>/dev/null; git apply --unsafe-paths "$patch" 2>/dev/null || patch -p1 -s < "$patch" ) || { echo "PATCH FAILED"; rm -rf "$d"; exit 3; }
rm -rf "$d/repo/.git"
mkdir -p "$d/replays" "$d/evidence"
VERIF_REPO="$d/repo" VERIF_REPLAY_DIR="$d/replays" VERIF_EVIDENCE_DIR="$d/evidence" python3 /verif/check.py "$prop" --tier "$tier" ${VERIF_EXTRA:-}
rc=$?
if [ -n "${KEEP_REPLAY:-}" ]; then mkdir -p "$KEEP_REPLAY"; cp -r "$d/replays/." "$KEEP_REPLAY/" 2>/dev/null; fi
if [ $rc -eq 1 ] && [ -n "${SHOW_REPLAY:-}" ]; then for f in "$d"/replays/*/*.json; do echo "--- $f"; head -c 1500 "$f"; echo; done; fi
rm -rf "$d"
exit $rc
