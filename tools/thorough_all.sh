#!/bin/bash
# runs every property's thorough tier once, sequentially (each check uses all cores)
# usage: VERIF_SEED=n VERIF_BUDGET_SCALE=f tools/thorough_all.sh [ids...]
cd "$(dirname "$0")/.."
ids=${@:-C20 C19 C10 C09 C01 C02 C03 C13 C12}
out=${VERIF_EVIDENCE_DIR:-evidence}
for id in $ids; do
  echo "=== $id thorough seed=${VERIF_SEED:-1} scale=${VERIF_BUDGET_SCALE:-1} $(date +%T)"
  python3 check.py $id --tier thorough; echo "rc=$?"
done
