#!/usr/bin/env python3
"""Regenerates /verif/MANIFEST.json from the tables below (kept in one place so
that it stays valid and in step with check.py)."""
import json, os, sys
sys.path.insert(0, os.path.dirname(os.path.dirname(os.path.abspath(__file__))))
import check

CLAIMS = {
 "C01": dict(engine="protocol-sim", cat="exploration", ref="§3 C01",
   text="Seeded exploration: honest opening sets (sizes, index patterns, polynomial classes, commitment representations, labels) are proved and verified by the real instrumented code, prover and verifier each under a seeded schedule and an independently drawn simulated CPU count, with the proof carried over a chunking reader; accept + equal next challenge + no deadlock/panic is checked on every run; polynomial classes include limb-, window- and Montgomery-representation boundaries; a second stage repeats part of the workload in a -race build (scheduler handoffs hidden from the detector) so that conflicts below synchronisation-point granularity are seen. Evidence, not proof: only sampled inputs, CPU counts and schedules are judged.",
   note="instrumentation preserves semantics (tested in pass-through); commitments are the library's own Commit(f) (C05 not claimed)",
   tech="deterministic simulation: seeded goroutine scheduler + simulated CPU count over prover/verifier nodes, oracle = acceptance and transcript agreement"),
 "C02": dict(engine="protocol-sim+wire", cat="exploration", ref="§3 C02",
   text="Fault injection on the prover->verifier message (byte flips, component replacement, splices of two in-flight proofs, reorder/duplicate/drop of openings, label change, shape faults, representation-only changes) on honest traffic; the library verifier's decision is compared with an independent math/big reference verifier on the delivered message, and any accepted message must be value-identical to a sent one (all-zero traffic exempt); 15% of the honest traffic is produced by the reference prover so that prover/verifier-consistent deviations from the specification show up; a separate mode drives ipa.CheckIPAProof with reference-made proofs, boundary evaluation points and non-group-element values. Explores the enumerated single-fault space by sampling; cannot find crafted forgeries.",
   note="trusted: reference model (self-validated against the repository's cross-implementation vectors at setup)",
   tech="deterministic simulation with message-fault injection on the prover->verifier wire, differential oracle against reference verifier"),
 "C03": dict(engine="protocol-sim", cat="exploration", ref="§3 C03",
   text="Each sampled opening set is proved several times by the real code under different simulated CPU counts, schedule policies, commitment representations, pool/map-order decisions and positions in a call history; all serialisations must be byte-identical to each other and to the proof computed by the independent reference prover, and the next transcript challenge must agree; ipa.CreateIPAProof is checked the same way at in-domain, out-of-domain and look-alike boundary points; a -race stage repeats part of the workload.",
   note="trusted: reference model; reference cost bounds the number of opening sets per run",
   tech="deterministic simulation over schedules/CPU counts/histories with a byte-for-byte reference-model oracle"),
 "C09": dict(engine="sched-sim", cat="exploration", ref="§3 C09",
   text="Every goroutine, channel and WaitGroup of the MSM stack runs under the seeded scheduler with simulated CPU counts and task-count settings; sizes, scalar classes (small-value share around the 10% split threshold, carry chains, boundary values), point classes and, through a scratch-only overlay, every window width c in 4..16 (20..22 in thorough) x split mode are sampled; result must equal (sum s_i k_i)G computed by the reference model from known discrete logs; deadlock is detected exactly (also lock-order deadlocks; calls blocked outside the simulator's control are caught by a real-time watchdog); a -race stage repeats part of the workload so that workers sharing memory without synchronisation are reported even though they never interleave at synchronisation points.",
   note="trusted: reference scalar multiplication; internal entry points reached through an overlay file in the scratch copy (falls back to public API if internals are renamed)",
   tech="deterministic simulation: seeded scheduling of all MSM worker goroutines + NbTasks/NumCPU seams, exact deadlock detection, reference-sum oracle"),
 "C10": dict(engine="io-sim", cat="fault_enumeration", ref="§3 C10",
   text="The io.Reader/io.Writer arguments are simulated: chunking (1 byte / random / all), EOF delivered separately or with the last data, truncation, read error at an offset (sticky or one-shot, alone or with data), flipped bytes, field-wise boundary substitutions, every length, trailing data, writer failing at each Write call (zero/partial/after-full, sticky or one-shot). Fault-free streams: accept iff the reference acceptance set; narrow, documented relaxation under injected read errors. Thorough enumerates every offset/field/call.",
   note="trusted: reference decoder; (0,nil) reads are not injected (the property says well-behaved reader)",
   tech="fault enumeration on simulated io.Reader/io.Writer (chunking, EOF style, errors, truncation, corruption) with reference acceptance-set oracle"),
 "C12": dict(engine="sched-sim -race", cat="exploration", ref="§3 C12",
   text="2..8 client tasks issue seeded operation sequences against one shared IPAConfig inside the seeded scheduler in a -race build whose scheduler handoffs are hidden from the detector, so any pair of conflicting accesses executed in a run and not ordered by the library's own synchronisation is reported; every operation's output must equal its output when executed alone afterwards in the same simulation; a third of the runs start on a pristine configuration (cold lazy state); streams read by clients yield at every read; deadlocks are detected exactly, calls blocked on state outside the simulation by a watchdog.",
   note="a race is only seen between accesses that a sampled run executes; interleavings switch at synchronisation points",
   tech="deterministic simulation of concurrent clients under a seeded scheduler in a race-detector build (handoffs hidden), solo-result oracle"),
 "C13": dict(engine="history-sim", cat="exploration", ref="§3 C13",
   text="Seeded call histories (including failing calls) over shared argument objects; after every call deep fingerprints (reflect+unsafe, unexported fields included) of the configuration, of every package-level variable and of every caller-owned argument must be unchanged (commitments given to the prover may only change representation); a fixed probe gives identical bytes before and after the history and every call of the history, replayed at the end, must return what it returned the first time; objects returned to the caller are overwritten by the caller (nothing shared may change); private package state that is empty at process start may fill up (caches), everything else is strict.",
   note="fingerprint walks memory reachable from the roots; sync.* internals are skipped",
   tech="deterministic simulation of API call histories with state-fingerprint invariants after every step"),
 "C19": dict(engine="sched-sim", cat="exploration", ref="§3 C19",
   text="BatchNormalize's workers run under the seeded scheduler with simulated CPU count and seeded map-iteration order; list lengths around worker-partition boundaries, aliasing patterns, representations, identity, and an un-normalisable element at each position are sampled; batch results must equal the single-element operations position by position and the error path must leave every element bitwise unchanged; a -race stage repeats part of the workload.",
   note="the sequential batch serialisers ride along in the same workload; their oracle is the property itself (single-element operation)",
   tech="deterministic simulation: seeded scheduling + CPU-count and map-order seams, fault = un-normalisable element, single-operation oracle"),
 "C20": dict(engine="sched-sim", cat="exploration", ref="§3 C20",
   text="parallel.Execute runs under the seeded scheduler with adversarial yields inside the work function; quick samples boundary-biased (n,m), thorough walks the whole 2049x300 grid once plus random cells; at the instant Execute returns every started invocation must have finished, and the recorded ranges must partition [0,n) with at most min(n,m) non-empty invocations; GOMAXPROCS is a seam of its own, atomic operations are scheduling points, re-entrant calls are part of the workload, and a -race stage repeats part of it.",
   note="one seeded schedule per grid cell, not all schedules",
   tech="deterministic simulation: seeded scheduler with injected delays, partition/join oracle"),
}

NA = [
  ("C04", "pure function of (polynomial, point, result): no schedule, clock, I/O, fault or cross-call state in the anchored code; its MSM sub-calls are C09's subject"),
  ("C05", "MSMPrecomp.MSM is a sequential table walk; the quantifier is digit patterns of the input, not schedules/faults/histories"),
  ("C06", "acceptance set is a predicate on a byte string; no nondeterminism or fault surface (the stream wrapper ReadPoint is exercised under C10)"),
  ("C07", "pure function of an element's representation"),
  ("C08", "pure algebra over inputs; no shared or scheduled state"),
  ("C11", "pure function of an element's representation"),
  ("C14", "sequential state machine whose output is a deterministic function of the call sequence; no concurrency, I/O or fault"),
  ("C15", "pure field arithmetic; asm/portable variants are build configurations, not runtime nondeterminism"),
  ("C16", "pure decode/encode of a byte string (its input-left-intact clause coincides with C13's input fingerprint invariant and is decided there)"),
  ("C17", "pure function of a field element"),
  ("C18", "pure polynomial arithmetic"),
]

def main():
    checks = []
    claimed = [p for p in sorted(check.PROPS)]
    for pid in claimed:
        c = CLAIMS[pid]
        checks.append(dict(
            property_id=pid,
            quick_cmd="python3 /verif/check.py %s --tier quick" % pid,
            thorough_cmd="python3 /verif/check.py %s --tier thorough" % pid,
            evidence_file="/verif/evidence/%s.json" % pid,
            replay_cmd_template="python3 /verif/check.py %s --replay {path}" % pid,
            engine=c["engine"],
            level_claimed=dict(category=c["cat"], text=c["text"], design_ref="DESIGN.md " + c["ref"]),
            level_note=c["note"],
            technique=c["tech"],
        ))
    na = [dict(property_id=p, reason=r) for p, r in NA]
    for pid in sorted(CLAIMS):
        if pid not in claimed:
            na.append(dict(property_id=pid, reason="claimed in DESIGN.md; check not yet registered in this commit (machinery under construction)"))
    man = dict(
        version=1,
        setup_cmd="python3 /verif/check.py --setup",
        hooks=dict(
            guard="verif",
            enable="no source hooks in /repo: every check copies /repo's working tree to a scratch directory, rewrites the copy with /verif/instr (type-aware AST instrumenter routing go statements, channel and WaitGroup operations, runtime.NumCPU, sync.Pool, map ranges and errgroup through package verifsim) and builds the harness against the copy with -tags verif,verifoverlay",
            baseline_off_cmd="cd /repo && go test -vet=off -count=1 -timeout 25m ./...",
            source_commits=[],
            add_only=True,
        ),
        engines=[
            dict(name="sched-sim", path="/verif/verifsim + /verif/instr", serves_properties=["C01", "C02", "C03", "C09", "C12", "C13", "C19", "C20"], kind_free_text="seeded scheduler releasing real goroutines one at a time inside a testing/synctest bubble (go1.26.8); AST instrumentation of a scratch copy"),
            dict(name="io-sim", path="/verif/harness/iosim.go", serves_properties=["C10", "C01", "C02"], kind_free_text="simulated io.Reader/io.Writer with chunking, EOF styles, errors, truncation"),
            dict(name="refmodel", path="/verif/refmodel", serves_properties=["C02", "C03", "C09", "C10"], kind_free_text="independent math/big reference implementation (oracle only), self-validated against cross-implementation vectors"),
        ],
        checks=checks,
        not_applicable=na,
        notes="All checks: python3 /verif/check.py <ID> --tier quick|thorough; honour VERIF_SEED; rebuild from /repo's working tree (or $VERIF_REPO); exit 0/1/2 = held / violation / infrastructure. Known findings and fixes: /verif/known_findings.json.",
    )
    json.dump(man, open(os.path.join(check.VERIF, "MANIFEST.json"), "w"), indent=1)
    print("wrote MANIFEST.json with", len(checks), "checks,", len(na), "not_applicable")

if __name__ == "__main__":
    main()
