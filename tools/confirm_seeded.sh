#!/bin/bash
# usage: confirm_seeded.sh <mutation-dir> <demo-dest-pkg-dir ('.' = root)> <seeded-name> <property> [extra go test args]
# Confirms a sub-agent's change in a fresh scratch worktree of /repo: (1) suite passes with the change,
# (2) the demo fails with the change, (3) the demo passes without it. Stores it under /verif/seeded/<name>/.
set -u
export GOFLAGS=-mod=mod GOPROXY=off GOSUMDB=off
mdir=$1; dest=$2; name=$3; prop=$4; shift 4
wt=$(mktemp -d /tmp/cf-XXXXXX); rmdir "$wt"
git -C /repo worktree add -q "$wt" HEAD || exit 3
log=$(mktemp /tmp/cflog-XXXXXX)
res() { echo "$1" | tee -a "$log"; }
cd "$wt"
git apply "$mdir/patch.diff" || { res "APPLY FAILED"; cd /; git -C /repo worktree remove --force "$wt"; exit 3; }
if go build ./... >>"$log" 2>&1 && go test -vet=off -count=1 ./... >>"$log" 2>&1; then suite=pass; else suite=FAIL; fi
res "suite with change: $suite"
demos=$(ls "$mdir"/*_test.go 2>/dev/null)
for d in $demos; do cp "$d" "$wt/$dest/"; done
if go test -vet=off -count=1 "$@" "./$dest" >>"$log" 2>&1; then with=pass; else with=FAIL; fi
res "demo with change: $with (expected FAIL)"
git checkout -q -- . 
if go test -vet=off -count=1 "$@" "./$dest" >>"$log" 2>&1; then without=pass; else without=FAIL; fi
res "demo without change: $without (expected pass)"
cd /
git -C /repo worktree remove --force "$wt"
ok=no
if [ $suite = pass ] && [ $with = FAIL ] && [ $without = pass ]; then ok=yes; fi
res "CONFIRMED=$ok"
if [ $ok = yes ]; then
  out=/verif/seeded/$name; mkdir -p "$out"
  cp "$mdir/patch.diff" "$out/patch.diff"
  for d in $demos; do cp "$d" "$out/"; done
  [ -f "$mdir/README.md" ] && cp "$mdir/README.md" "$out/README.md"
  tail -c 3000 "$log" > "$out/confirm.log"
  echo "$dest" > "$out/demo_dest.txt"
fi
rm -f "$log"
[ $ok = yes ]
