#!/bin/bash
# usage: mkmutant.sh <name> <file> <python-replace-old> <python-replace-new> [count]
# creates mutants/<name>.patch by replacing text in a scratch copy of /repo
set -e
name=$1; file=$2; old=$3; new=$4; cnt=${5:-1}
d=$(mktemp -d /var/tmp/mk-XXXXXX)
mkdir -p "$d/a" "$d/b"
mkdir -p "$d/a/$(dirname $file)" "$d/b/$(dirname $file)"
cp "/repo/$file" "$d/a/$file"
OLD="$old" NEW="$new" CNT="$cnt" python3 - "$d/a/$file" "$d/b/$file" <<'PY'
import os,sys
s=open(sys.argv[1]).read()
old=os.environ['OLD']; new=os.environ['NEW']; cnt=int(os.environ['CNT'])
if s.count(old)<1: sys.exit("pattern not found")
if cnt==0: s=s.replace(old,new)
else:
    # replace the cnt-th occurrence (1-based)
    idx=-1
    for _ in range(cnt):
        idx=s.index(old, idx+1)
    s=s[:idx]+new+s[idx+len(old):]
open(sys.argv[2],'w').write(s)
PY
( cd "$d" && diff -u "a/$file" "b/$file" > "/verif/mutants/$name.patch" || true )
rm -rf "$d"
grep -c '^[-+][^-+]' "/verif/mutants/$name.patch"
