#!/bin/bash
# usage: benign_run.sh <patch> [ids...] — apply a behaviour-preserving patch to a scratch copy and run checks; every check must exit 0
patch=$(readlink -f "$1"); shift
ids=${@:-C20 C19 C10 C09 C01 C02 C03 C13 C12}
d=$(mktemp -d /var/tmp/ben-XXXXXX)
rsync -a --exclude .git /repo/ "$d/repo/"
( cd "$d/repo" && git init -q . 2>/dev/null; git apply --unsafe-paths "$patch" ) || { echo "PATCH FAILED $patch"; rm -rf "$d"; exit 3; }
rm -rf "$d/repo/.git"; mkdir -p "$d/replays" "$d/evidence"
for id in $ids; do
  out=$(VERIF_REPO="$d/repo" VERIF_REPLAY_DIR="$d/replays" VERIF_EVIDENCE_DIR="$d/evidence" python3 /verif/check.py $id --tier quick 2>&1); rc=$?
  echo "$(basename $(dirname $patch))/$(basename $patch) $id rc=$rc $(echo "$out" | grep 'tier=' | sed 's/.*runs=/runs=/' | cut -c1-60)"
  if [ $rc -ne 0 ]; then echo "$out" | grep -v "^\s" | tail -25 | cut -c1-400; [ -n "${KEEP_REPLAY:-}" ] && { mkdir -p $KEEP_REPLAY; cp -r $d/replays/. $KEEP_REPLAY/; }; fi
done
rm -rf "$d"
