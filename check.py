#!/usr/bin/env python3
"""Orchestrator of the deterministic-simulation checks for crate-crypto/go-ipa.

  check.py --setup                      build tools, warm caches, self-validate
  check.py <ID> --tier quick|thorough   run the check of one property
  check.py <ID> --replay <file>         re-execute a replay file
  check.py --selftest                   determinism / sensitivity self-tests

Exit codes: 0 property held on everything explored; 1 violation (line
"VIOLATION property=<id> replay=<path>"); 2 infrastructure problem.
Environment: VERIF_SEED, VERIF_TIER, VERIF_REPO (tree to check, default /repo),
VERIF_SCRATCH (default /var/tmp), VERIF_WORKERS (default: number of CPUs).
"""
import hashlib
import json
import os
import shutil
import subprocess
import sys
import time

VERIF = os.path.dirname(os.path.abspath(__file__))
REPO = os.environ.get("VERIF_REPO", "/repo")
SCRATCH_BASE = os.environ.get("VERIF_SCRATCH", "/var/tmp")
GO = "go1.26.8"
NCPU = os.cpu_count() or 4
WORKERS = int(os.environ.get("VERIF_WORKERS", str(NCPU)))
REPLAY_DIR = os.environ.get("VERIF_REPLAY_DIR", os.path.join(VERIF, "replays"))
EVIDENCE_DIR = os.environ.get("VERIF_EVIDENCE_DIR", os.path.join(VERIF, "evidence"))

GOENV = dict(os.environ, GOFLAGS="-mod=mod", GOPROXY="off", GOSUMDB="off", GOTOOLCHAIN="local", CGO_ENABLED=os.environ.get("CGO_ENABLED", "1"))


class Infra(Exception):
    pass


def log(*a):
    print(*a, flush=True)


def run(cmd, cwd=None, env=None, timeout=None, check=True, capture=True):
    p = subprocess.run(cmd, cwd=cwd, env=env or GOENV, timeout=timeout, stdout=subprocess.PIPE if capture else None,
                       stderr=subprocess.STDOUT if capture else None, text=True)
    if check and p.returncode != 0:
        raise Infra("command failed (%d): %s\n%s" % (p.returncode, " ".join(cmd), (p.stdout or "")[-4000:]))
    return p


# ---------------------------------------------------------------------------
# per-property configuration

PROPS = {
    # id: dict(level, race build?, tiers: {tier: [stage, ...]})
    # a stage = dict(variant, runs, budget_s, workers)
    "C20": dict(level="exploration", race=False, tiers={
        "quick": [dict(variant="", runs=24000, budget_s=60), dict(variant="", runs=4000, budget_s=15, race=True)],
        "thorough": [dict(variant="grid", runs=2049 * 300, budget_s=1500), dict(variant="", runs=400000, budget_s=900), dict(variant="", runs=100000, budget_s=300, race=True)],
    }),
}

PROPS["C09"] = dict(level="exploration", race=False, tiers={
    # the "race" stages re-run part of the workload in a -race build: a data race between two
    # MSM workers is a schedule on which the result can be wrong even if no interleaving at
    # synchronisation-point granularity shows it
    "quick": [dict(variant="", runs=12000, budget_s=60), dict(variant="", runs=2000, budget_s=35, race=True)],
    "thorough": [dict(variant="", runs=400000, budget_s=2400), dict(variant="", runs=60000, budget_s=900, race=True), dict(variant="bigc", runs=60, budget_s=900, workers=1)],
})

PROPS["C19"] = dict(level="exploration", race=False, tiers={
    "quick": [dict(variant="", runs=12000, budget_s=60), dict(variant="", runs=3000, budget_s=20, race=True)],
    "thorough": [dict(variant="", runs=1500000, budget_s=2400), dict(variant="", runs=300000, budget_s=600, race=True)],
})

PROPS["C10"] = dict(level="fault_enumeration", race=False, tiers={
    "quick": [dict(variant="", runs=480000, budget_s=75)],
    "thorough": [dict(variant="enum", runs=2 * 2 * 3 * 2 * 6 * 2400, budget_s=3000), dict(variant="", runs=4000000, budget_s=1500)],
})

PROPS["C01"] = dict(level="exploration", race=False, race_stage_needs_config=True, tiers={
    "quick": [dict(variant="", runs=3000, budget_s=80), dict(variant="", runs=240, budget_s=30, race=True)],
    "thorough": [dict(variant="", runs=120000, budget_s=2700), dict(variant="", runs=8000, budget_s=600, race=True)],
})

PROPS["C03"] = dict(level="exploration", race=False, race_stage_needs_config=True, tiers={
    "quick": [dict(variant="", runs=400, budget_s=75), dict(variant="", runs=48, budget_s=30, race=True)],
    "thorough": [dict(variant="", runs=20000, budget_s=2700), dict(variant="", runs=2000, budget_s=600, race=True)],
})

PROPS["C02"] = dict(level="exploration", race=False, tiers={
    "quick": [dict(variant="", runs=4000, budget_s=90)],
    "thorough": [dict(variant="", runs=60000, budget_s=3300)],
})

PROPS["C12"] = dict(level="exploration", race=True, tiers={
    "quick": [dict(variant="", runs=300, budget_s=50, workers=12)],
    "thorough": [dict(variant="", runs=40000, budget_s=3300, workers=12)],
})

PROPS["C13"] = dict(level="exploration", race=False, tiers={
    "quick": [dict(variant="", runs=500, budget_s=80)],
    "thorough": [dict(variant="", runs=50000, budget_s=3300)],
})

GENERIC_RULE = ("one evaluation = one simulated run: a plan drawn from (VERIF_SEED, run index) and executed on the instrumented copy of the "
                "current tree; non-trivial = at least two tasks were runnable at some scheduler step, or at least one injected fault fired; "
                "distinct = distinct (scheduler trace hash, workload/configuration shape) pairs among the non-trivial runs. ")
RULES = {
    "C01": GENERIC_RULE + "Plan = opening set (n, index pattern, polynomial classes, pointer sharing, commitment representations, label) + prover scheduler config + verifier scheduler config (independent simulated CPU counts) + wire chunking.",
    "C02": GENERIC_RULE + "Plan = honest opening set + ONE message fault (byte flip/replace, D/L_j/R_j/a replaced by a random valid value or spliced from a second in-flight proof, C_i/z_i/y_i changed, swap/dup/drop, label, shape, representation-only, noise) + verifier scheduler config. Non-trivial additionally requires a fault other than 'none'.",
    "C03": GENERIC_RULE + "Plan = one opening set (or one IPA opening) proved under k>=4 configurations (simulated CPU count, schedule policy, commitment representations, pool/map decisions, history prefix); one evaluation = one opening set, i.e. k simulations plus one reference proof.",
    "C09": GENERIC_RULE + "Plan = (API level, n, NbTasks, Montgomery flag, scalar class mix, point class mix, optional length mismatch; for the internal entry point also window width c and split mode) + scheduler config.",
    "C10": "one evaluation = one (input, reader/writer behaviour) case; input class in {honest, field-wise boundary substitution, bit flip, random, truncated, trailing}; non-trivial = the input is not the honest one or a reader/writer fault fired or the stream was chunked/EOF came with data; distinct = distinct (kind, input class, length, flip offset, chunking, EOF style, fault kind+offset, writer call+mode) tuples. Quick samples; the thorough 'enum' stage enumerates every offset, field, length and writer call.",
    "C12": GENERIC_RULE + "Plan = 2..8 clients x 1..5 operations (kind, seed, size) + scheduler config; each run executes every operation alone (solo simulation) and then all clients concurrently (-race build).",
    "C13": GENERIC_RULE + "Plan = arena seed + history of 5..40 calls (a random subset of 37 call kinds incl. 8 failing kinds) over shared argument objects + scheduler config; fingerprints of configuration, package-level variables and arena are compared after every call.",
    "C19": GENERIC_RULE + "Plan = (list length, aliasing pattern, representation mix, identity share, position of an un-normalisable element) + scheduler config (CPU count, map-order shuffle).",
    "C20": GENERIC_RULE + "Plan = (n, m or default, per-invocation delay budget) + scheduler config; thorough stage 'grid' walks every cell of n in 0..2048 x m in 1..300 once.",
}
ASSUME = {
    "C01": ["commitments are the library's own Commit(f) (C05 is not claimed)"],
    "C02": ["the reference verifier (verif/refmodel) is correct; it reproduces every cross-implementation vector of the repository at setup",
            "honest all-zero traffic is exempt from the 'modified message must be rejected' cross-check (its proof is valid for every all-zero statement)"],
    "C03": ["the reference prover (verif/refmodel) is correct; it reproduces the repository's byte-exact IPA and multiproof vectors at setup"],
    "C09": ["reference scalar multiplication over known discrete logs; banderwagon.Element has layout {X,Y,Z} (verified at worker start)"],
    "C10": ["reference decoder defines the acceptance set; readers never return (0, nil); a failed writer either stays failed or fails once"],
    "C12": ["a data race is only seen between accesses executed in a sampled run; sync.Pool hand-overs inside math/big may hide a race in a given run"],
    "C13": ["fingerprints cover memory reachable from the configuration, the generated VerifGlobals() of every go-ipa package and the arena; sync.* internals are skipped"],
    "C19": [], "C20": [],
}


# ---------------------------------------------------------------------------
# building

def ensure_tools():
    """Build the instrumenter if missing or stale."""
    os.makedirs(os.path.join(VERIF, "bin"), exist_ok=True)
    instr = os.path.join(VERIF, "bin", "instr")
    src = os.path.join(VERIF, "instr", "main.go")
    if not os.path.exists(instr) or os.path.getmtime(instr) < os.path.getmtime(src):
        run([GO, "build", "-trimpath", "-o", instr, "."], cwd=os.path.join(VERIF, "instr"))
    return instr


def tree_digest(path):
    h = hashlib.sha256()
    for root, dirs, files in os.walk(path):
        dirs[:] = sorted(d for d in dirs if d != ".git")
        for f in sorted(files):
            fp = os.path.join(root, f)
            h.update(os.path.relpath(fp, path).encode())
            try:
                with open(fp, "rb") as fh:
                    h.update(fh.read())
            except OSError:
                pass
    return h.hexdigest()[:16]


def prepare(scratch, race=False, overlay=True, mkconfig=True):
    """Copy the tree under test, instrument the copy, build the worker binary."""
    t0 = time.time()
    instr = ensure_tools()
    repo_copy = os.path.join(scratch, "repo")
    run(["rsync", "-a", "--delete", "--exclude", ".git", REPO.rstrip("/") + "/", repo_copy + "/"])
    vs = os.path.join(repo_copy, "verifsim")
    if os.path.exists(vs):
        shutil.rmtree(vs)
    os.makedirs(os.path.join(vs, "errgroup"))
    for f in ("sim.go", "ops.go", "race_on.go", "race_off.go"):
        shutil.copy(os.path.join(VERIF, "verifsim", f), vs)
    shutil.copy(os.path.join(VERIF, "verifsim", "errgroup", "errgroup.go"), os.path.join(vs, "errgroup"))
    meta = os.path.join(scratch, "instr_meta.json")
    p = run([instr, "-dir", repo_copy, "-meta", meta], check=False)
    if p.returncode != 0:
        raise Infra("instrumenter refused the tree:\n" + p.stdout[-3000:])
    # overlays exposing internals (tag verifoverlay)
    ov = os.path.join(VERIF, "overlay")
    if os.path.isdir(ov):
        run(["rsync", "-a", ov + "/", repo_copy + "/"])
    # harness + reference model
    hdir = os.path.join(scratch, "harness")
    run(["rsync", "-a", "--delete", os.path.join(VERIF, "harness") + "/", hdir + "/"])
    run(["rsync", "-a", "--delete", "--exclude", "cmd", os.path.join(VERIF, "refmodel") + "/", os.path.join(scratch, "refmodel") + "/"])
    shutil.copy(os.path.join(hdir, "go.mod.tmpl"), os.path.join(hdir, "go.mod"))
    # module requirements of the tree under test
    with open(os.path.join(repo_copy, "go.sum")) as f:
        open(os.path.join(hdir, "go.sum"), "w").write(f.read())
    binp = os.path.join(scratch, "worker.test")
    tags = "verif,verifoverlay" if overlay else "verif"
    cmd = [GO, "test", "-c", "-trimpath", "-tags", tags, "-o", binp, "."]
    if race:
        cmd.insert(3, "-race")
    p = run(cmd, cwd=hdir, check=False)
    used_overlay = overlay
    if p.returncode != 0 and overlay:
        log("build with internal overlays failed, retrying with public API only:\n" + p.stdout[-1500:])
        cmd[cmd.index(tags)] = "verif"
        p = run(cmd, cwd=hdir, check=False)
        used_overlay = False
    if p.returncode != 0:
        raise Infra("harness build failed:\n" + p.stdout[-4000:])
    built = dict(bin=binp, meta=json.load(open(meta)), overlay=used_overlay, build_s=time.time() - t0)
    if mkconfig:
        # the library's own NewIPASettings, once per check instead of once per worker
        cc = os.path.join(scratch, "config.bin")
        if os.path.exists(cc):
            os.remove(cc)
        w, out = one_shot(binp, dict(prop="", mode="mkconfig", config_cache=cc), scratch, "mkconfig", 1800, race=race)
        if not (out and out.get("ok")) or not os.path.exists(cc):
            log("config cache not built (workers will build their own): %s" % (out,))
        built["mkconfig_s"] = time.time() - t0 - built["build_s"]
    return built


# ---------------------------------------------------------------------------
# running workers

def spawn(binp, job, scratch, tag, race=False, gomaxprocs=None):
    jobp = os.path.join(scratch, "job-%s.json" % tag)
    job = dict(job)
    cc = os.path.join(scratch, "config.bin")
    if os.path.exists(cc) and job.get("mode") != "mkconfig":
        job["config_cache"] = cc
    job["out"] = os.path.join(scratch, "out-%s.json" % tag)
    for stale in (job["out"], job["out"] + ".current"):
        if os.path.exists(stale):
            os.remove(stale)
    json.dump(job, open(jobp, "w"))
    env = dict(GOENV, VERIF_JOB=jobp)
    env.setdefault("GOMEMLIMIT", "1500MiB")  # soft limit: keeps 16 workers (x race shadow memory) inside the machine
    if race:
        env["GORACE"] = "halt_on_error=1 exitcode=66"
    if gomaxprocs:
        env["GOMAXPROCS"] = str(gomaxprocs)
    logp = os.path.join(scratch, "log-%s.txt" % tag)
    fh = open(logp, "w")
    p = subprocess.Popen([binp, "-test.run", "^TestWorker$", "-test.timeout", "0", "-test.count", "1"], env=env, stdout=fh, stderr=subprocess.STDOUT,
                         cwd=scratch)
    return dict(proc=p, job=job, log=logp, fh=fh, tag=tag)


def wait_all(ws, hard_timeout):
    t0 = time.time()
    for w in ws:
        left = max(1.0, hard_timeout - (time.time() - t0))
        try:
            w["rc"] = w["proc"].wait(timeout=left)
        except subprocess.TimeoutExpired:
            w["proc"].kill()
            w["proc"].wait()
            w["rc"] = "timeout"
        w["fh"].close()
    return ws


def read_out(w):
    try:
        return json.load(open(w["job"]["out"]))
    except Exception:
        return None


def one_shot(binp, job, scratch, tag, timeout, race=False):
    w = spawn(binp, job, scratch, tag, race=race)
    wait_all([w], timeout)
    return w, read_out(w)


# ---------------------------------------------------------------------------
# known findings

def known_findings(pid):
    path = os.path.join(VERIF, "known_findings.json")
    if not os.path.exists(path):
        return []
    return [e for e in json.load(open(path)) if e.get("property") == pid and e.get("status") == "open"]


# ---------------------------------------------------------------------------

def minimise_and_report(pid, built, scratch, failure, race, seed):
    """Shrink a failing plan, replay it in a fresh process, write the replay file."""
    plan = failure["plan"]
    cls = failure["class"]
    detail = failure["detail"]
    job = dict(prop=pid, mode="shrink", tier="quick", seed=seed, plan=plan, want_class=cls, shrink_s=120.0)
    w, out = one_shot(built["bin"], job, scratch, "shrink", 600, race=race)
    minimised = False
    if out and out.get("class") == cls and out.get("plan"):
        # confirm in a fresh process
        w2, out2 = one_shot(built["bin"], dict(prop=pid, mode="replay", tier="quick", seed=seed, plan=out["plan"]), scratch, "confirm", 600, race=race)
        if out2 and out2.get("class") == cls:
            plan, detail, minimised = out["plan"], out2.get("detail", detail), True
    unstable = False
    if not minimised:
        w2, out2 = one_shot(built["bin"], dict(prop=pid, mode="replay", tier="quick", seed=seed, plan=plan), scratch, "confirm0", 600, race=race)
        if not (out2 and out2.get("class") == cls):
            unstable = True
    rdir = os.path.join(REPLAY_DIR, pid)
    os.makedirs(rdir, exist_ok=True)
    body = dict(property=pid, violation_class=cls, detail=detail, seed=seed, run=failure.get("run"), minimised=minimised,
                replay_unstable=unstable, race_build=race, plan=plan,
                how_to_replay="python3 /verif/check.py %s --replay <this file>" % pid)
    h = hashlib.sha256(json.dumps(body["plan"], sort_keys=True).encode()).hexdigest()[:12]
    path = os.path.join(rdir, "%s-%s.json" % (cls, h))
    json.dump(body, open(path, "w"), indent=1)
    log("violation class=%s minimised=%s unstable=%s\n%s" % (cls, minimised, unstable, detail))
    log("VIOLATION property=%s replay=%s" % (pid, path))
    return path


def dies(built, pid, plan, scratch, race, seed, marker, attempts=2):
    """True if a replay worker dies on this plan with `marker` in its output."""
    for a in range(attempts):
        w, out = one_shot(built["bin"], dict(prop=pid, mode="replay", tier="quick", seed=seed, plan=plan), scratch, "fshrink", 900, race=race)
        if out is None or w["rc"] != 0:
            tail = open(w["log"]).read()[-6000:]
            if marker in tail:
                return True, tail[tail.index(marker):] if marker != "goroutine " else tail
    return False, ""


def shrink_fatal(built, pid, plan, scratch, race, seed, marker, budget_s=240):
    """Orchestrator-level reducer for violations that kill the worker process: every
    candidate is tried in a fresh process; kept if the process dies the same way."""
    t0 = time.time()
    progress = True
    detail = None
    while progress and time.time() - t0 < budget_s:
        progress = False
        w, out = one_shot(built["bin"], dict(prop=pid, mode="cands", tier="quick", seed=seed, plan=plan), scratch, "cands", 300, race=race)
        for cand in (out or {}).get("cands") or []:
            if time.time() - t0 > budget_s:
                break
            ok, tail = dies(built, pid, cand, scratch, race, seed, marker)
            if ok:
                plan, detail, progress = cand, tail, True
                break
    return plan, detail


def check(pid, tier, seed):
    t0 = time.time()
    conf = PROPS[pid]
    race = conf.get("race", False)
    scratch = os.path.join(SCRATCH_BASE, "verif-%s-%d" % (pid, os.getpid()))
    shutil.rmtree(scratch, ignore_errors=True)
    os.makedirs(scratch)
    try:
        built = prepare(scratch, race=race)
        log("[%s] built worker in %.1fs (overlay=%s, sites=%d, probes=%d)" % (pid, built["build_s"], built["overlay"], len(built["meta"]["sites"]), len(built["meta"]["probes"])))
        known = known_findings(pid)
        agg = dict(runs=0, nontrivial=0, steps=0, tasks=0, sim_ns=0, max_parked=0, keys=set(), faults={}, notes={}, shapes={}, site_orders={},
                   policies={}, numcpus={}, samples=[], violations=[], known_hits={}, infra=[], probes=set(), timed_out=0, stages=[])
        scale = float(os.environ.get("VERIF_BUDGET_SCALE", "1"))
        built_race = None
        for si, st in enumerate(conf["tiers"][tier]):
            st = dict(st, budget_s=st["budget_s"] * scale)
            srace = bool(st.get("race", race))
            b = built
            if srace and not race:
                # a race-detector stage of a property whose main build is not a -race build
                if built_race is None:
                    rs = os.path.join(scratch, "racebuild")
                    os.makedirs(rs, exist_ok=True)
                    built_race = prepare(rs, race=True, mkconfig=conf.get("race_stage_needs_config", False))
                    built_race["scratch"] = rs
                b = built_race
            sscratch = b.get("scratch", scratch)
            sseed = seed + 7919 if (srace and not race) else seed  # the race stage draws different plans
            nw = min(WORKERS, st.get("workers", WORKERS))
            ws = []
            for k in range(nw):
                job = dict(prop=pid, mode="explore", tier=tier, seed=sseed, shard=k, nshards=nw, runs=st["runs"], budget_s=st["budget_s"], only_run=-1,
                           variant=st.get("variant", ""), samples=2 if k < 3 else 0, known=["%s:%s" % (pid, e["key"]) for e in known])
                ws.append(spawn(b["bin"], job, sscratch, "s%d-w%d" % (si, k), race=srace, gomaxprocs=[1, 2, 4, 16][k % 4]))
            wait_all(ws, st["budget_s"] * 3 + 600)
            # workers that retired because a run left goroutines behind (a library with long-lived
            # workers): continue their shard in fresh processes while the stage budget lasts
            t_stage = time.time()
            rounds = 0
            while time.time() - t_stage < st["budget_s"] and rounds < 400:
                cont = []
                for w in ws:
                    o = read_out(w)
                    if o and o.get("retired") and not w.get("continued") and w["rc"] == 0 and o.get("retired_at", 0) < st["runs"]:
                        w["continued"] = True
                        job = dict(w["job"], first_run=o["retired_at"], budget_s=max(5.0, st["budget_s"] - (time.time() - t_stage)))
                        cont.append(spawn(b["bin"], job, sscratch, w["tag"] + "c", race=srace))
                if not cont:
                    break
                wait_all(cont, st["budget_s"] * 3 + 600)
                ws.extend(cont)
                rounds += 1
            stage = dict(variant=st.get("variant", ""), race_build=srace, planned_runs=st["runs"], runs=0, wall_s=0.0)
            for w in ws:
                out = read_out(w)
                if out is None or w["rc"] != 0:
                    # the worker died: attribute to the run it had announced, re-run that plan alone
                    cur = None
                    try:
                        cur = json.load(open(w["job"]["out"] + ".current"))["run"]
                    except Exception:
                        pass
                    tail = open(w["log"]).read()[-6000:]
                    if cur is None:
                        agg["infra"].append("worker %s died before its first run (rc=%s):\n%s" % (w["tag"], w["rc"], tail))
                        continue
                    job = dict(w["job"], only_run=cur, budget_s=0)
                    if "from outside bubble" in tail:
                        agg["infra"].append("simulator limitation: a goroutine that outlived an earlier simulation touched a channel of a later one (worker %s, run %s):\n%s" % (w["tag"], cur, tail[-1500:]))
                        continue
                    raced = "DATA RACE" in tail
                    stalled = "VERIF-BLOCKED-FOREVER" in tail
                    reproduced, tail2, out2 = False, "", None
                    for attempt in range(3 if raced else (2 if stalled else 1)):
                        w2, out2 = one_shot(b["bin"], job, sscratch, w["tag"] + "-rerun", 1200, race=srace)
                        tail2 = open(w2["log"]).read()[-6000:]
                        if out2 is None or w2["rc"] != 0:
                            reproduced = True
                            break
                    if reproduced or raced:
                        # a reproducible death of the process on this plan (runtime fatal error) or a
                        # race-detector report (never downgraded: the detector has no false positives;
                        # whether it fires again depends on its bounded shadow history and on
                        # sync.Pool hand-overs inside math/big) is a violation
                        rep = tail2 if reproduced else tail
                        cls = "data-race" if "DATA RACE" in rep else ("blocked-forever" if "VERIF-BLOCKED-FOREVER" in rep else "process-death")
                        if cls == "blocked-forever":
                            rep = rep[rep.index("VERIF-BLOCKED-FOREVER"):]
                        gen = one_shot_gen(built, pid, tier, seed, cur, st.get("variant", ""), sscratch, race)
                        agg["violations"].append(dict(run=cur, **{"class": cls}, detail=(rep[:3500] if cls == "blocked-forever" else rep[-3500:]), plan=gen, fatal=True, replay_unstable=not reproduced, _b=b, _race=srace, _scratch=sscratch))
                    elif stalled:
                        # the watchdog fired but the same plan runs to completion alone (twice): the
                        # process was starved or suspended, not blocked - a stall of the machine is
                        # not a verdict and not a reason to fail the check
                        log("WARNING: worker %s reported a stall on run %s that does not reproduce; ignored" % (w["tag"], cur))
                        agg["notes"]["non-reproducible-stall-ignored"] = agg["notes"].get("non-reproducible-stall-ignored", 0) + 1
                        merge(agg, stage, out2)
                    else:
                        agg["infra"].append("worker %s died (rc=%s) on run %s but the run alone passes:\n%s" % (w["tag"], w["rc"], cur, tail[-2000:]))
                        merge(agg, stage, out2)
                    continue
                nv = len(agg["violations"])
                merge(agg, stage, out)
                for f in agg["violations"][nv:]:
                    f["_b"], f["_race"], f["_scratch"] = b, srace, sscratch
            agg["stages"].append(stage)
            if agg["violations"] or agg["infra"]:
                break
        rc = 0
        replays = []
        for e in known:
            hits = agg["known_hits"].get(e["key"], 0)
            log("KNOWN-FINDING: property=%s %s (%s; seen %d times in this run)" % (pid, e["key"], e["what"], hits))
        if agg["infra"]:
            for i in agg["infra"]:
                log("INFRA: " + i)
            rc = 2
        for f in agg["violations"][:1]:
            fb, frace, fscratch = f.pop("_b", built), f.pop("_race", race), f.pop("_scratch", scratch)
            if f.get("fatal"):
                marker = {"data-race": "DATA RACE", "blocked-forever": "VERIF-BLOCKED-FOREVER"}.get(f["class"], "goroutine ")
                small, det = shrink_fatal(fb, pid, f["plan"], fscratch, frace, seed, marker)
                if det:
                    f = dict(f, plan=small, detail=(det[:3500] if f["class"] == "blocked-forever" else det[-3500:]), minimised=True)
                rdir = os.path.join(REPLAY_DIR, pid)
                os.makedirs(rdir, exist_ok=True)
                h = hashlib.sha256(json.dumps(f["plan"], sort_keys=True).encode()).hexdigest()[:12]
                path = os.path.join(rdir, "%s-%s.json" % (f["class"], h))
                json.dump(dict(property=pid, violation_class=f["class"], detail=f["detail"], seed=seed, run=f["run"], minimised=f.get("minimised", False), replay_unstable=f.get("replay_unstable", False), race_build=frace, plan=f["plan"],
                               note="race reports are replayed up to 5 times: the schedule is deterministic, the detector's bounded shadow history and pool hand-overs inside math/big are not"), open(path, "w"), indent=1)
                log(f["detail"])
                log("VIOLATION property=%s replay=%s" % (pid, path))
                replays.append(path)
            else:
                replays.append(minimise_and_report(pid, fb, fscratch, f, frace, seed))
            rc = 1
        write_evidence(pid, tier, seed, conf, agg, built, time.time() - t0, replays)
        return rc
    finally:
        shutil.rmtree(scratch, ignore_errors=True)


def one_shot_gen(built, pid, tier, seed, run_idx, variant, scratch, race):
    """Ask a worker for the plan of one run without executing it."""
    job = dict(prop=pid, mode="gen", tier=tier, seed=seed, only_run=run_idx, variant=variant)
    w, out = one_shot(built["bin"], job, scratch, "gen", 300, race=race)
    return (out or {}).get("plan")


def merge(agg, stage, out):
    agg["runs"] += out.get("runs", 0)
    stage["runs"] += out.get("runs", 0)
    stage["wall_s"] = max(stage["wall_s"], out.get("wall_s", 0.0))
    agg["nontrivial"] += out.get("nontrivial", 0)
    agg["steps"] += out.get("steps", 0)
    agg["tasks"] += out.get("tasks", 0)
    agg["sim_ns"] += out.get("sim_ns", 0)
    agg["max_parked"] = max(agg["max_parked"], out.get("max_parked", 0))
    agg["keys"].update(out.get("keys") or [])
    for name in ("faults", "notes", "shapes", "policies", "numcpus", "known_hits"):
        for k, v in (out.get(name) or {}).items():
            agg[name][k] = agg[name].get(k, 0) + v
    for k, v in (out.get("site_orders") or {}).items():
        agg["site_orders"][k] = max(agg["site_orders"].get(k, 0), v)
    agg["samples"].extend(out.get("samples") or [])
    agg["violations"].extend(out.get("violations") or [])
    agg["infra"].extend(out.get("infra") or [])
    agg["probes"].update(out.get("probes_hit") or [])
    if out.get("timed_out"):
        agg["timed_out"] += 1


def write_evidence(pid, tier, seed, conf, agg, built, wall, replays):
    meta = built["meta"]
    probes = meta.get("probes", [])
    hit = agg["probes"]
    by_file = {}
    for i, name in enumerate(probes):
        f = name.rsplit(":", 1)[0]
        d = by_file.setdefault(f, [0, 0])
        d[1] += 1
        if i in hit:
            d[0] += 1
    never = [probes[i] for i in range(len(probes)) if i not in hit]
    ev = dict(
        property_id=pid, tier=tier, seed=seed, level=conf["level"], wall_s=round(wall, 2), violations=len(agg["violations"]),
        coverage=dict(
            evaluations=agg["runs"],
            distinct_nontrivial=len(agg["keys"]),
            rule=RULES.get(pid, GENERIC_RULE),
            samples=agg["samples"][:6],
            nontrivial_runs=agg["nontrivial"],
            scheduler_steps=agg["steps"],
            tasks_created=agg["tasks"],
            max_tasks_parked_at_once=agg["max_parked"],
            simulated_time_s=agg["sim_ns"] / 1e9,
            simulated_time_note="go-ipa has no timers or clocks; simulated time only advances if the code under test sleeps (progress is measured in scheduler steps)",
            runs_per_hour=int(agg["runs"] / max(wall, 1e-9) * 3600),
            faults_fired=agg["faults"],
            rare_conditions_hit=agg["notes"],
            distinct_arrival_orders_per_fanin_site=dict(sorted(agg["site_orders"].items(), key=lambda kv: -kv[1])[:40]),
            schedule_policies=agg["policies"],
            simulated_cpu_counts=agg["numcpus"],
            workload_shapes=len(agg["shapes"]),
            stages=agg["stages"],
            workers_time_capped=agg["timed_out"],
            probes=dict(total=len(probes), hit=len(hit), by_file={k: "%d/%d" % (v[0], v[1]) for k, v in sorted(by_file.items())}, never_hit_sample=never[:40]),
            instrumentation=dict(sites=len(meta.get("sites", [])), counts=meta.get("counts"), files_rewritten=meta.get("files_rewritten"), internal_overlays=built["overlay"]),
            real_components=["all go-ipa packages (instrumented scratch copy of the working tree)", "gnark-crypto field/curve arithmetic (un-instrumented, spawns no goroutines on these paths)"],
            stubbed_or_simulated=["goroutine scheduling (seeded scheduler, one task at a time)", "runtime.NumCPU", "sync.Pool recycling policy", "map iteration order", "golang.org/x/sync/errgroup (sim-aware re-implementation)", "io.Reader/io.Writer arguments", "prover->verifier wire"],
            replay_files=replays,
            exhaustive=False,
        ),
        assumptions=ASSUME.get(pid, []) + ["the AST instrumentation preserves the semantics of the code under test (checked by running the repository's test-suite on the instrumented copy in pass-through mode, see check.py --selftest)",
                                           "sampling: only schedules, configurations and faults that were drawn are judged"],
    )
    os.makedirs(EVIDENCE_DIR, exist_ok=True)
    json.dump(ev, open(os.path.join(EVIDENCE_DIR, pid + ".json"), "w"), indent=1)
    log("[%s] tier=%s seed=%d runs=%d nontrivial=%d distinct=%d steps=%d wall=%.1fs violations=%d" % (pid, tier, seed, agg["runs"], agg["nontrivial"], len(agg["keys"]), agg["steps"], wall, len(agg["violations"])))


def replay_cmd(pid, path):
    conf = PROPS[pid]
    body = json.load(open(path))
    race = bool(body.get("race_build", conf.get("race", False)))
    scratch = os.path.join(SCRATCH_BASE, "verif-%s-replay-%d" % (pid, os.getpid()))
    shutil.rmtree(scratch, ignore_errors=True)
    os.makedirs(scratch)
    try:
        built = prepare(scratch, race=race)
        attempts = 5 if body.get("violation_class") == "data-race" else 1
        for attempt in range(attempts):
            w, out = one_shot(built["bin"], dict(prop=pid, mode="replay", tier="quick", seed=body.get("seed", 0), plan=body["plan"]), scratch, "replay", 3600, race=race)
            if out is None or w["rc"] != 0:
                break
        if out is None or w["rc"] != 0:
            tail = open(w["log"]).read()[-5000:]
            log(tail)
            if "DATA RACE" in tail or "VERIF-BLOCKED-FOREVER" in tail or body.get("violation_class") in ("data-race", "process-death", "blocked-forever"):
                log("VIOLATION property=%s replay=%s" % (pid, path))
                return 1
            raise Infra("replay worker died")
        if out.get("infra"):
            raise Infra(out["infra"])
        if out.get("class"):
            log("reproduced: class=%s\n%s" % (out["class"], out.get("detail", "")))
            log("VIOLATION property=%s replay=%s" % (pid, path))
            return 1
        log("replay did not reproduce a violation (steps=%s trace=%s)" % (out.get("steps"), out.get("trace")))
        return 0
    finally:
        shutil.rmtree(scratch, ignore_errors=True)


def setup():
    t0 = time.time()
    ensure_tools()
    run([GO, "vet", "./..."], cwd=os.path.join(VERIF, "refmodel"))
    p = run([GO, "run", "./cmd/selftest"], cwd=os.path.join(VERIF, "refmodel"))
    log(p.stdout.strip())
    # warm the build cache (std, race std, instrumented tree, harness) on a scratch copy
    scratch = os.path.join(SCRATCH_BASE, "verif-setup-%d" % os.getpid())
    shutil.rmtree(scratch, ignore_errors=True)
    os.makedirs(scratch)
    try:
        prepare(scratch, race=False, mkconfig=False)
        prepare(scratch, race=True, mkconfig=False)
    finally:
        shutil.rmtree(scratch, ignore_errors=True)
    log("setup ok in %.1fs" % (time.time() - t0))
    return 0


def main(argv):
    if len(argv) >= 2 and argv[1] == "--setup":
        return setup()
    if len(argv) >= 2 and argv[1] == "--selftest":
        import selftest
        return selftest.main(argv[2:])
    if len(argv) < 2 or argv[1] not in PROPS:
        print(__doc__)
        return 2
    pid = argv[1]
    tier = os.environ.get("VERIF_TIER", "quick")
    seed = int(os.environ.get("VERIF_SEED", "1"))
    if "--tier" in argv:
        tier = argv[argv.index("--tier") + 1]
    if "--seed" in argv:
        seed = int(argv[argv.index("--seed") + 1])
    if "--replay" in argv:
        return replay_cmd(pid, argv[argv.index("--replay") + 1])
    return check(pid, tier, seed)


if __name__ == "__main__":
    try:
        sys.exit(main(sys.argv))
    except Infra as e:
        print("INFRA: %s" % e, flush=True)
        sys.exit(2)
