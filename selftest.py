#!/usr/bin/env python3
"""Self-tests of the simulator (python3 check.py --selftest [passthrough] [unit] [determinism] [mutants]).

  passthrough  the repository's own test-suite passes on the instrumented copy with the simulator off
  unit         verifsim's unit tests, also under -race, incl. the toy data race that MUST be reported
  determinism  the same (VERIF_SEED, run) executed in >=30 OS processes at GOMAXPROCS 1/4/16 gives
               identical scheduler trace hashes, step counts and verdicts
  mutants      every patch in /verif/mutants and /verif/seeded is detected by the named property's check
"""
import glob
import json
import os
import shutil
import subprocess
import sys
import time

import check

DET_PROPS = {  # property -> number of runs compared
    "C20": 40, "C09": 30, "C19": 40, "C01": 6, "C03": 2, "C02": 6, "C12": 3, "C13": 4,
}


def passthrough():
    scratch = os.path.join(check.SCRATCH_BASE, "verif-selftest-pt-%d" % os.getpid())
    shutil.rmtree(scratch, ignore_errors=True)
    os.makedirs(scratch)
    try:
        check.prepare(scratch, race=False, mkconfig=False)
        p = subprocess.run(["go", "test", "-vet=off", "-count=1", "-timeout", "25m", "./..."], cwd=os.path.join(scratch, "repo"), env=check.GOENV,
                           stdout=subprocess.PIPE, stderr=subprocess.STDOUT, text=True)
        print(p.stdout[-2500:])
        if p.returncode != 0:
            print("SELFTEST FAIL: repository suite fails on the instrumented copy in pass-through mode")
            return 2
        print("passthrough ok: repository test-suite passes on the instrumented copy with the simulator off")
        return 0
    finally:
        shutil.rmtree(scratch, ignore_errors=True)


def unit():
    d = os.path.join(check.VERIF, "verifsim")
    for args in (["test", "-count=1", "."], ["test", "-race", "-count=1", "."]):
        p = subprocess.run([check.GO] + args, cwd=d, env=check.GOENV, stdout=subprocess.PIPE, stderr=subprocess.STDOUT, text=True)
        print(" ".join(args), "->", p.stdout.strip()[-300:])
        if p.returncode != 0:
            return 2
    env = dict(check.GOENV, VERIFSIM_RACE_TOY="1")
    p = subprocess.run([check.GO, "test", "-race", "-count=1", "-run", "TestRaceToy", "."], cwd=d, env=env, stdout=subprocess.PIPE, stderr=subprocess.STDOUT, text=True)
    if "DATA RACE" not in p.stdout:
        print("SELFTEST FAIL: the toy data race was NOT reported under the serialising scheduler")
        return 2
    print("unit ok: toy data race is reported under a fully serialised schedule; no false reports")
    return 0


def determinism(props=None):
    rc = 0
    for pid, nruns in DET_PROPS.items():
        if props and pid not in props:
            continue
        race = check.PROPS[pid].get("race", False)
        scratch = os.path.join(check.SCRATCH_BASE, "verif-selftest-det-%s-%d" % (pid, os.getpid()))
        shutil.rmtree(scratch, ignore_errors=True)
        os.makedirs(scratch)
        try:
            built = check.prepare(scratch, race=race)
            ws = []
            nproc = 30
            for k in range(nproc):
                job = dict(prop=pid, mode="tracelist", tier="quick", seed=12345, shard=0, runs=nruns, variant="")
                ws.append(check.spawn(built["bin"], job, scratch, "det%d" % k, race=race, gomaxprocs=[1, 4, 16][k % 3]))
                if len(ws) % 15 == 0:
                    check.wait_all(ws[-15:], 3600)
            check.wait_all(ws, 3600)
            outs = [check.read_out(w) for w in ws]
            if any(o is None for o in outs):
                print("SELFTEST FAIL %s: a determinism worker died" % pid)
                for w in ws:
                    if check.read_out(w) is None:
                        print(open(w["log"]).read()[-2000:])
                        break
                rc = 2
                continue
            ref = json.dumps(outs[0]["list"], sort_keys=True)
            bad = [i for i, o in enumerate(outs) if json.dumps(o["list"], sort_keys=True) != ref]
            infra = [x for x in outs[0]["list"] if x["infra"]]
            if bad or infra:
                print("SELFTEST FAIL %s: %d of %d processes diverge (infra=%s)" % (pid, len(bad), nproc, infra[:1]))
                a, b = outs[0]["list"], outs[bad[0]]["list"] if bad else outs[0]["list"]
                for x, y in zip(a, b):
                    if x != y:
                        print("  first divergence:", x, y)
                        break
                rc = 2
            else:
                steps = sum(x["steps"] for x in outs[0]["list"])
                print("determinism ok %s: %d processes x %d runs (GOMAXPROCS 1/4/16) identical traces, %d steps each" % (pid, nproc, nruns, steps))
        finally:
            shutil.rmtree(scratch, ignore_errors=True)
    return rc


def mutants(only=None):
    """Each mutant file name starts with the lower-case property id it must be caught by (c09-...)."""
    rc = 0
    rows = []
    patches = sorted(glob.glob(os.path.join(check.VERIF, "mutants", "*.patch")))
    for sd in sorted(glob.glob(os.path.join(check.VERIF, "seeded", "*"))):
        pf = os.path.join(sd, "patch.diff")
        mf = os.path.join(sd, "meta.json")
        if os.path.exists(pf) and os.path.exists(mf):
            patches.append(pf)
    for pf in patches:
        if pf.endswith("patch.diff"):
            meta = json.load(open(os.path.join(os.path.dirname(pf), "meta.json")))
            pids = meta.get("caught_by") or [meta["property"]]
            name = os.path.basename(os.path.dirname(pf))
        else:
            name = os.path.basename(pf)[:-6]
            pids = [name.split("-")[0].upper()]
        if only and not any(o in name for o in only):
            continue
        for pid in pids[:1]:
            t0 = time.time()
            p = subprocess.run([os.path.join(check.VERIF, "tools", "mutant_run.sh"), pf, pid, "quick"], stdout=subprocess.PIPE, stderr=subprocess.STDOUT, text=True)
            caught = p.returncode == 1 and "VIOLATION property=%s" % pid in p.stdout
            cls = ""
            for line in p.stdout.splitlines():
                if line.startswith("violation class=") or line.startswith("VIOLATION"):
                    cls = line[:110]
                    break
            rows.append((name, pid, "CAUGHT" if caught else "MISSED rc=%d" % p.returncode, "%.0fs" % (time.time() - t0), cls))
            print(rows[-1], flush=True)
            if not caught:
                rc = 2
    return rc


def main(argv):
    what = [a for a in argv if not a.startswith("-")] or ["passthrough", "unit", "determinism"]
    rc = 0
    if "unit" in what:
        rc |= unit()
    if "passthrough" in what:
        rc |= passthrough()
    if "determinism" in what:
        rc |= determinism([a for a in argv if a.startswith("C")] or None)
    if "mutants" in what:
        rc |= mutants([a[2:] for a in argv if a.startswith("--")] or None)
    print("selftest", "OK" if rc == 0 else "FAILED")
    return rc
