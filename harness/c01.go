package harness

import (
	"bytes"
	"encoding/json"
	"fmt"

	multiproof "github.com/crate-crypto/go-ipa"
	"github.com/crate-crypto/go-ipa/bandersnatch/fr"
	"github.com/crate-crypto/go-ipa/banderwagon"
	"github.com/crate-crypto/go-ipa/common"
)

// C01 — multiproof completeness: every honest opening set verifies, on every
// CPU count and schedule, and both transcripts agree afterwards.

type C01Plan struct {
	Set      OpeningSet `json:"set"`
	Prover   SimCfg     `json:"prover_sim"`
	Verifier SimCfg     `json:"verifier_sim"`
	Wire     ReaderSpec `json:"wire"`
}

type c01 struct{}

func init() { register("C01", c01{}) }

func (c01) Prepare(string) { env.Config() }

func genN(r *Rng, tier string) int {
	maxN := 256
	if tier == "thorough" {
		maxN = 4096
	}
	switch r.Intn(10) {
	case 0:
		return 1
	case 1, 2:
		return 1 + r.Intn(8)
	case 3, 4, 5:
		return 1 + r.Intn(40)
	case 6:
		return r.Pick([]int{255, 256, 257, 300})
	}
	return r.LogUniform(maxN)
}

func (c01) Gen(seed uint64, run int, tier, variant string) interface{} {
	r := NewRng(seed, run, "C01")
	n := genN(r, tier)
	var p C01Plan
	maxCPU := 300
	if n > 512 {
		maxCPU = 64
	}
	p.Prover = GenSimCfg(r, n, maxCPU)
	if r.Chance(40) {
		// n = k*workers +- 1
		k := 1 + r.Intn(5)
		m := k*p.Prover.NumCPU + r.Pick([]int{-1, 0, 1})
		if m >= 1 && m <= 300 {
			n = m
		}
	}
	p.Set = GenOpeningSet(r, n, 6)
	p.Verifier = GenSimCfg(r, n, maxCPU)
	p.Wire = genReader(r)
	return &p
}

func (c01) Decode(raw json.RawMessage) (interface{}, error) {
	var p C01Plan
	err := json.Unmarshal(raw, &p)
	return &p, err
}

func (c01) Sched(plan interface{}) []*SimCfg {
	p := plan.(*C01Plan)
	return []*SimCfg{&p.Prover, &p.Verifier}
}

type proveOut struct {
	err   error
	bytes []byte
	next  fr.Element
	werr  error
}

// simProve runs the prover node: create the proof, serialise it, squeeze one
// more challenge from the transcript.
func simProve(sc SimCfg, o *Openings, label string) (proveOut, SimOut) {
	cfg := env.Config()
	return Simulate(sc, 20000, func() (po proveOut) {
		tr := common.NewTranscript(label)
		proof, err := multiproof.CreateMultiProof(tr, cfg, o.Cs, o.Fs, o.Zs)
		po.err = err
		if err != nil {
			return
		}
		var buf bytes.Buffer
		po.werr = proof.Write(&buf)
		po.bytes = buf.Bytes()
		po.next = tr.ChallengeScalar([]byte("next"))
		return
	})
}

type verifyOut struct {
	readErr error
	ok      bool
	err     error
	next    fr.Element
}

func simVerify(sc SimCfg, label string, wire []byte, rs ReaderSpec, Cs []*banderwagon.Element, ys []*fr.Element, zs []uint8) (verifyOut, SimOut) {
	cfg := env.Config()
	return Simulate(sc, 8000, func() (vo verifyOut) {
		var proof multiproof.MultiProof
		vo.readErr = proof.Read(NewSimReader(wire, rs))
		if vo.readErr != nil {
			return
		}
		tr := common.NewTranscript(label)
		vo.ok, vo.err = multiproof.CheckMultiProof(tr, cfg, &proof, Cs, ys, zs)
		vo.next = tr.ChallengeScalar([]byte("next"))
		return
	})
}

func (c01) Exec(plan interface{}) Result {
	p := plan.(*C01Plan)
	var res Result
	res.Shape = p.Set.shape() + fmt.Sprintf(" pcpu=%d vcpu=%d", p.Prover.NumCPU, p.Verifier.NumCPU)
	o, err := Materialise(&p.Set)
	if err != nil {
		res.Infra = err.Error()
		return res
	}
	n := len(o.Cs)
	before := make([]banderwagon.Element, n)
	for i, c := range o.Cs {
		before[i] = *c
	}
	po, out := simProve(p.Prover, o, p.Set.Label)
	res.absorb(out)
	if res.Class != "" || res.Infra != "" {
		res.Detail = "prover: " + res.Detail
		return res
	}
	if po.err != nil {
		return mergeViolation(res, "prover-error", "CreateMultiProof of %d honest openings failed: %v", n, po.err)
	}
	if po.werr != nil || len(po.bytes) != 576 {
		return mergeViolation(res, "write", "proof.Write: err=%v, %d bytes", po.werr, len(po.bytes))
	}
	for i, c := range o.Cs {
		if !c.Equal(&before[i]) || c.Bytes() != before[i].Bytes() {
			return mergeViolation(res, "commitment-changed", "CreateMultiProof changed the value of commitment %d", i)
		}
	}
	vo, out2 := simVerify(p.Verifier, p.Set.Label, po.bytes, p.Wire, o.VCs, o.Ys, o.Zs)
	res.absorb(out2)
	if res.Class != "" || res.Infra != "" {
		res.Detail = "verifier: " + res.Detail
		return res
	}
	if p.Wire.Chunk != "all" {
		res.fault("wire-chunked-" + p.Wire.Chunk)
	}
	if vo.readErr != nil {
		return mergeViolation(res, "honest-proof-unreadable", "MultiProof.Read rejected the prover's own bytes: %v", vo.readErr)
	}
	if vo.err != nil {
		return mergeViolation(res, "verifier-error", "CheckMultiProof on an honest proof of %d openings returned error %v", n, vo.err)
	}
	if !vo.ok {
		return mergeViolation(res, "honest-proof-rejected", "CheckMultiProof rejected an honest proof of %d openings (prover cpu=%d, verifier cpu=%d)", n, p.Prover.NumCPU, p.Verifier.NumCPU)
	}
	if po.next != vo.next {
		return mergeViolation(res, "transcripts-diverge", "prover and verifier transcripts yield different next challenges after %d openings", n)
	}
	res.OK = true
	return res
}

func (c01) Shrink(plan interface{}) []interface{} {
	p := plan.(*C01Plan)
	var out []interface{}
	for _, s := range shrinkSet(&p.Set) {
		q := *p
		q.Set = s
		out = append(out, &q)
	}
	for _, sc := range shrinkSim(p.Prover) {
		q := *p
		q.Prover = sc
		out = append(out, &q)
	}
	for _, sc := range shrinkSim(p.Verifier) {
		q := *p
		q.Verifier = sc
		out = append(out, &q)
	}
	if p.Wire.Chunk != "all" || p.Wire.EOFWithData {
		q := *p
		q.Wire = ReaderSpec{Chunk: "all"}
		out = append(out, &q)
	}
	return out
}
