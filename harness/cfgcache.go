package harness

import (
	"bufio"
	"encoding/binary"
	"fmt"
	"io"
	"os"
	"reflect"
	"unsafe"

	"github.com/crate-crypto/go-ipa/bandersnatch/fr"
	"github.com/crate-crypto/go-ipa/ipa"
)

// The IPAConfig (~350 MB of tables) is built ONCE per check by the library's own
// NewIPASettings in pass-through mode, dumped to a scratch file with a generic
// reflect+unsafe walker, and loaded by every worker process. This only saves
// CPU time (16 workers would otherwise each rebuild the same tables); the
// loaded value is checked against a commitment computed by the builder.

func hasPointers(t reflect.Type) bool {
	switch t.Kind() {
	case reflect.Bool, reflect.Int, reflect.Int8, reflect.Int16, reflect.Int32, reflect.Int64,
		reflect.Uint, reflect.Uint8, reflect.Uint16, reflect.Uint32, reflect.Uint64, reflect.Uintptr,
		reflect.Float32, reflect.Float64, reflect.Complex64, reflect.Complex128:
		return false
	case reflect.Array:
		return hasPointers(t.Elem())
	case reflect.Struct:
		for i := 0; i < t.NumField(); i++ {
			if hasPointers(t.Field(i).Type) {
				return true
			}
		}
		return false
	}
	return true
}

func rawBytes(v reflect.Value) []byte {
	n := int(v.Type().Size())
	if n == 0 {
		return nil
	}
	return unsafe.Slice((*byte)(unsafe.Pointer(v.UnsafeAddr())), n)
}

func access(v reflect.Value) reflect.Value {
	if v.CanSet() || !v.CanAddr() {
		return v
	}
	return reflect.NewAt(v.Type(), unsafe.Pointer(v.UnsafeAddr())).Elem()
}

func dumpValue(w io.Writer, v reflect.Value) error {
	t := v.Type()
	if !hasPointers(t) {
		_, err := w.Write(rawBytes(v))
		return err
	}
	switch t.Kind() {
	case reflect.Struct:
		for i := 0; i < t.NumField(); i++ {
			if err := dumpValue(w, access(v.Field(i))); err != nil {
				return err
			}
		}
	case reflect.Array:
		for i := 0; i < v.Len(); i++ {
			if err := dumpValue(w, v.Index(i)); err != nil {
				return err
			}
		}
	case reflect.Slice:
		var hdr [9]byte
		if v.IsNil() {
			hdr[0] = 0
		} else {
			hdr[0] = 1
		}
		binary.LittleEndian.PutUint64(hdr[1:], uint64(v.Len()))
		if _, err := w.Write(hdr[:]); err != nil {
			return err
		}
		if v.Len() == 0 {
			return nil
		}
		if !hasPointers(t.Elem()) {
			n := v.Len() * int(t.Elem().Size())
			_, err := w.Write(unsafe.Slice((*byte)(unsafe.Pointer(v.Pointer())), n))
			return err
		}
		for i := 0; i < v.Len(); i++ {
			if err := dumpValue(w, v.Index(i)); err != nil {
				return err
			}
		}
	case reflect.Ptr:
		if v.IsNil() {
			_, err := w.Write([]byte{0})
			return err
		}
		if _, err := w.Write([]byte{1}); err != nil {
			return err
		}
		return dumpValue(w, v.Elem())
	default:
		return fmt.Errorf("cfgcache: unsupported kind %s in %s", t.Kind(), t)
	}
	return nil
}

func loadValue(r io.Reader, v reflect.Value) error {
	t := v.Type()
	if !hasPointers(t) {
		_, err := io.ReadFull(r, rawBytes(v))
		return err
	}
	switch t.Kind() {
	case reflect.Struct:
		for i := 0; i < t.NumField(); i++ {
			if err := loadValue(r, access(v.Field(i))); err != nil {
				return err
			}
		}
	case reflect.Array:
		for i := 0; i < v.Len(); i++ {
			if err := loadValue(r, v.Index(i)); err != nil {
				return err
			}
		}
	case reflect.Slice:
		var hdr [9]byte
		if _, err := io.ReadFull(r, hdr[:]); err != nil {
			return err
		}
		n := int(binary.LittleEndian.Uint64(hdr[1:]))
		if hdr[0] == 0 {
			v.Set(reflect.Zero(t))
			return nil
		}
		s := reflect.MakeSlice(t, n, n)
		v.Set(s)
		if n == 0 {
			return nil
		}
		if !hasPointers(t.Elem()) {
			_, err := io.ReadFull(r, unsafe.Slice((*byte)(unsafe.Pointer(s.Pointer())), n*int(t.Elem().Size())))
			return err
		}
		for i := 0; i < n; i++ {
			if err := loadValue(r, s.Index(i)); err != nil {
				return err
			}
		}
	case reflect.Ptr:
		var b [1]byte
		if _, err := io.ReadFull(r, b[:]); err != nil {
			return err
		}
		if b[0] == 0 {
			v.Set(reflect.Zero(t))
			return nil
		}
		p := reflect.New(t.Elem())
		v.Set(p)
		return loadValue(r, p.Elem())
	default:
		return fmt.Errorf("cfgcache: unsupported kind %s in %s", t.Kind(), t)
	}
	return nil
}

func probePoly() []fr.Element {
	r := NewRng(0xcf6, 0, "cfgprobe")
	f := make([]fr.Element, 256)
	for i := range f {
		f[i] = FrFromBig(r.Scalar())
	}
	return f
}

// WriteConfigCache builds the configuration with the library and dumps it.
func WriteConfigCache(path string) error {
	cfg, err := ipa.NewIPASettings()
	if err != nil {
		return err
	}
	f, err := os.Create(path + ".tmp")
	if err != nil {
		return err
	}
	w := bufio.NewWriterSize(f, 4<<20)
	c := cfg.Commit(probePoly())
	b := c.Bytes()
	w.Write(b[:])
	if err := dumpValue(w, reflect.ValueOf(cfg).Elem()); err != nil {
		f.Close()
		return err
	}
	if err := w.Flush(); err != nil {
		return err
	}
	if err := f.Close(); err != nil {
		return err
	}
	return os.Rename(path+".tmp", path)
}

// LoadConfigCache loads a dumped configuration and validates it with a probe commitment.
func LoadConfigCache(path string) (*ipa.IPAConfig, error) {
	f, err := os.Open(path)
	if err != nil {
		return nil, err
	}
	defer f.Close()
	r := bufio.NewReaderSize(f, 4<<20)
	var want [32]byte
	if _, err := io.ReadFull(r, want[:]); err != nil {
		return nil, err
	}
	cfg := new(ipa.IPAConfig)
	if err := loadValue(r, reflect.ValueOf(cfg).Elem()); err != nil {
		return nil, err
	}
	if _, err := r.ReadByte(); err != io.EOF {
		return nil, fmt.Errorf("cfgcache: trailing data")
	}
	c := cfg.Commit(probePoly())
	if c.Bytes() != want {
		return nil, fmt.Errorf("cfgcache: loaded configuration does not reproduce the builder's probe commitment")
	}
	return cfg, nil
}
