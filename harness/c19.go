package harness

import (
	"encoding/json"
	"fmt"
	"unsafe"

	"github.com/crate-crypto/go-ipa/bandersnatch/fr"
	"github.com/crate-crypto/go-ipa/banderwagon"
	"github.com/crate-crypto/go-ipa/verifsim"
	"verif/refmodel"
)

// C19 — batch helpers agree with the single-element operations; BatchNormalize
// is value preserving, gives Z=1 and is all-or-nothing on error — under every
// CPU count, worker schedule, map order and aliasing pattern.

type C19Plan struct {
	N        int    `json:"n"`
	Alias    string `json:"alias"` // distinct | allsame | pairs | ends | random | fewptrs
	ElemSeed uint64 `json:"elem_seed"`
	ReprMix  string `json:"repr_mix"` // affine | mixed | scaled | flipped
	Identity int    `json:"identity_percent"`
	ZeroPos  int    `json:"zero_pos"` // position of an un-normalisable (Z=0) element, -1 = none
	Sim      SimCfg `json:"sim"`
}

type c19 struct{}

func init() { register("C19", c19{}) }

func (c19) Prepare(string) { env.Pool() }

func (c19) Gen(seed uint64, run int, tier, variant string) interface{} {
	r := NewRng(seed, run, "C19")
	var p C19Plan
	switch r.Intn(8) {
	case 0:
		p.N = r.Intn(4)
	case 1, 2:
		p.N = r.Intn(40)
	default:
		p.N = r.Intn(301)
	}
	p.Sim = GenSimCfg(r, p.N, 300)
	if r.Chance(35) && p.Sim.NumCPU > 0 {
		// list lengths around the worker-partition boundaries
		k := 1 + r.Intn(4)
		p.N = k*p.Sim.NumCPU + r.Pick([]int{-1, 0, 1})
		if p.N > 300 {
			p.N = p.Sim.NumCPU + r.Pick([]int{-1, 0, 1})
		}
		if p.N > 300 || p.N < 0 {
			p.N = r.Intn(301)
		}
	}
	p.Alias = []string{"distinct", "distinct", "allsame", "pairs", "ends", "random", "fewptrs", "copies"}[r.Intn(8)]
	p.ReprMix = []string{"affine", "mixed", "mixed", "scaled", "flipped"}[r.Intn(5)]
	p.ElemSeed = r.U64()
	if r.Chance(30) {
		p.Identity = r.Pick([]int{5, 30, 100})
	}
	p.ZeroPos = -1
	if p.N > 0 && r.Chance(30) {
		p.ZeroPos = r.Pick([]int{0, p.N - 1, r.Intn(p.N), r.Intn(p.N)})
	}
	return &p
}

func (c19) Decode(raw json.RawMessage) (interface{}, error) {
	var p C19Plan
	err := json.Unmarshal(raw, &p)
	return &p, err
}

func (c19) Sched(plan interface{}) []*SimCfg { return []*SimCfg{&plan.(*C19Plan).Sim} }

type c19out struct {
	err       error
	comp      [][banderwagon.CompressedSize]byte
	uncomp    [][banderwagon.UncompressedSize]byte
	mapped    []fr.Element
	mapErr    error
	normErr   error
}

func (c19) Exec(plan interface{}) Result {
	p := plan.(*C19Plan)
	var res Result
	res.Shape = fmt.Sprintf("n=%d alias=%s repr=%s id=%d zero=%v cpu=%d", p.N, p.Alias, p.ReprMix, p.Identity, p.ZeroPos >= 0, p.Sim.NumCPU)
	_, poolP := env.Pool()
	r := NewRng(p.ElemSeed, p.N, "c19 elems")
	n := p.N
	// underlying objects
	objs := make([]*banderwagon.Element, n)
	for i := range objs {
		var rp refmodel.Point
		if r.Chance(p.Identity) {
			rp = refmodel.Identity()
		} else {
			rp = poolP[r.Intn(poolSize)]
		}
		var repr Repr
		switch p.ReprMix {
		case "affine":
			repr = ReprAffine
		case "scaled":
			repr = ReprScaled
		case "flipped":
			repr = ReprFlipped
		default:
			repr = Repr(r.Intn(int(NumReprs)))
		}
		e := ElemFromRef(rp, repr, r.Scalar())
		objs[i] = &e
	}
	if p.Alias == "copies" {
		// distinct objects holding bit-identical copies of a few values (a, b := c, c)
		for i := range objs {
			if i >= 2 && r.Chance(70) {
				cp := *objs[r.Intn(2)]
				objs[i] = &cp
			}
		}
	}
	// pointer list with the aliasing pattern
	ptrs := make([]*banderwagon.Element, n)
	few := 1 + r.Intn(3)
	for i := range ptrs {
		switch p.Alias {
		case "allsame":
			ptrs[i] = objs[0]
		case "pairs":
			ptrs[i] = objs[i/2*2]
		case "ends":
			ptrs[i] = objs[i]
			if i == n-1 {
				ptrs[i] = objs[0]
			}
		case "random":
			ptrs[i] = objs[r.Intn(n)]
		case "fewptrs":
			ptrs[i] = objs[r.Intn(few)%n]
		default:
			ptrs[i] = objs[i]
		}
	}
	if p.ZeroPos >= 0 && p.ZeroPos < n {
		ptrs[p.ZeroPos] = &banderwagon.Element{} // X=Y=Z=0: cannot be normalised
		res.fault("un-normalisable-element")
	}
	hasZero := p.ZeroPos >= 0 && p.ZeroPos < n
	// single-element results (the specification of the batch helpers), computed
	// before the simulated batch calls, outside the simulation
	type single struct {
		comp   [banderwagon.CompressedSize]byte
		uncomp [banderwagon.UncompressedSize]byte
		mapped fr.Element
	}
	singles := make([]single, n)
	before := make([]banderwagon.Element, n)
	for i, e := range ptrs {
		before[i] = *e
		if hasZero {
			continue
		}
		singles[i].comp = e.Bytes()
		singles[i].uncomp = e.BytesUncompressedTrusted()
		e.MapToScalarField(&singles[i].mapped)
	}
	rank := make([]unsafe.Pointer, n)
	for i, e := range ptrs {
		rank[i] = unsafe.Pointer(e)
	}
	verifsim.RankPointers(rank)
	got, out := Simulate(p.Sim, 200+4*n, func() (o c19out) {
		if !hasZero {
			o.comp = banderwagon.ElementsToBytes(ptrs...)
			o.uncomp = banderwagon.BatchToBytesUncompressed(ptrs...)
			o.mapped = make([]fr.Element, n)
			mp := make([]*fr.Element, n)
			for i := range mp {
				mp[i] = &o.mapped[i]
			}
			o.mapErr = banderwagon.BatchMapToScalarField(mp, ptrs)
		}
		o.normErr = banderwagon.BatchNormalize(ptrs)
		return
	})
	res.absorb(out)
	if res.Class != "" || res.Infra != "" {
		return res
	}
	if hasZero {
		if got.normErr == nil {
			return mergeViolation(res, "normalize-no-error", "BatchNormalize returned nil although element %d of %d has Z=0", p.ZeroPos, n)
		}
		for i, e := range ptrs {
			if elemRaw(e) != elemRaw(&before[i]) {
				return mergeViolation(res, "normalize-partial", "BatchNormalize failed (element %d has Z=0) but modified element %d", p.ZeroPos, i)
			}
		}
		res.OK = true
		return res
	}
	if got.normErr != nil {
		return mergeViolation(res, "normalize-error", "BatchNormalize of %d valid elements returned %v", n, got.normErr)
	}
	if got.mapErr != nil {
		return mergeViolation(res, "map-error", "BatchMapToScalarField returned %v", got.mapErr)
	}
	if len(got.comp) != n || len(got.uncomp) != n {
		return mergeViolation(res, "batch-length", "batch serialisers returned %d/%d entries for %d elements", len(got.comp), len(got.uncomp), n)
	}
	one := FpFromBig(bigOne)
	for i, e := range ptrs {
		if got.comp[i] != singles[i].comp {
			return mergeViolation(res, "batch-compressed", "ElementsToBytes[%d] = %x but Bytes() = %x (n=%d)", i, got.comp[i], singles[i].comp, n)
		}
		if got.uncomp[i] != singles[i].uncomp {
			return mergeViolation(res, "batch-uncompressed", "BatchToBytesUncompressed[%d] differs from BytesUncompressedTrusted() (n=%d)", i, n)
		}
		if got.mapped[i] != singles[i].mapped {
			return mergeViolation(res, "batch-map", "BatchMapToScalarField[%d] differs from MapToScalarField (n=%d)", i, n)
		}
		l := (*elemLayout)(unsafe.Pointer(e))
		if l.Z != one {
			return mergeViolation(res, "normalize-z", "after BatchNormalize element %d of %d has Z != 1 (alias=%s cpu=%d)", i, n, p.Alias, p.Sim.NumCPU)
		}
		if !e.Equal(&before[i]) {
			return mergeViolation(res, "normalize-value", "after BatchNormalize element %d of %d is not Equal to its former value (alias=%s cpu=%d)", i, n, p.Alias, p.Sim.NumCPU)
		}
		if e.Bytes() != singles[i].comp {
			return mergeViolation(res, "normalize-value", "after BatchNormalize element %d of %d encodes differently (alias=%s cpu=%d)", i, n, p.Alias, p.Sim.NumCPU)
		}
		// uncompressed form decodes in trusted mode to an Equal element
		var back banderwagon.Element
		if err := back.SetBytesUncompressed(singles[i].uncomp[:], true); err != nil || !back.Equal(&before[i]) {
			return mergeViolation(res, "uncompressed-roundtrip", "trusted decoding of element %d's uncompressed form: err=%v equal=%v", i, err, err == nil && back.Equal(&before[i]))
		}
	}
	if n == 0 {
		res.note("empty")
	}
	if p.Alias != "distinct" && n > 1 {
		res.note("aliased")
	}
	res.OK = true
	return res
}

func (c19) Shrink(plan interface{}) []interface{} {
	p := plan.(*C19Plan)
	var out []interface{}
	add := func(f func(q *C19Plan)) {
		q := *p
		if p.Sim.Choices != nil {
			q.Sim.Choices = append([]int32{}, p.Sim.Choices...)
		}
		f(&q)
		if q.ZeroPos >= q.N {
			q.ZeroPos = q.N - 1
		}
		out = append(out, &q)
	}
	for _, n := range []int{0, 1, 2, 3, p.N / 2, p.N - 1} {
		if n >= 0 && n < p.N {
			n := n
			add(func(q *C19Plan) { q.N = n })
		}
	}
	if p.ZeroPos > 0 {
		add(func(q *C19Plan) { q.ZeroPos = 0 })
	}
	if p.Alias != "distinct" {
		add(func(q *C19Plan) { q.Alias = "distinct" })
	}
	if p.ReprMix != "affine" {
		add(func(q *C19Plan) { q.ReprMix = "affine" })
	}
	if p.Identity != 0 {
		add(func(q *C19Plan) { q.Identity = 0 })
	}
	for _, c := range []int{1, 2, p.Sim.NumCPU / 2} {
		if c >= 1 && c < p.Sim.NumCPU {
			c := c
			add(func(q *C19Plan) { q.Sim.NumCPU = c })
		}
	}
	if p.Sim.Policy != "fifo" && p.Sim.Choices == nil {
		add(func(q *C19Plan) { q.Sim.Policy = "fifo" })
	}
	if p.Sim.MapShuffle {
		add(func(q *C19Plan) { q.Sim.MapShuffle = false })
	}
	return out
}
