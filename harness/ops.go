package harness

import (
	"bytes"
	"crypto/sha256"
	"math/big"

	multiproof "github.com/crate-crypto/go-ipa"
	"github.com/crate-crypto/go-ipa/bandersnatch"
	"github.com/crate-crypto/go-ipa/bandersnatch/fr"
	"github.com/crate-crypto/go-ipa/banderwagon"
	"github.com/crate-crypto/go-ipa/common"
	"github.com/crate-crypto/go-ipa/ipa"
	"github.com/crate-crypto/go-ipa/verifsim"
)

// A small vocabulary of API operations on private arguments, shared by C12
// (concurrent clients) and C13 (call histories). Every operation is a pure
// function of (Kind, Seed, Size): it builds its own arguments, calls the
// library and returns a digest of everything the call returned.

type OpSpec struct {
	Kind string `json:"kind"`
	Seed uint64 `json:"seed"`
	Size int    `json:"size,omitempty"`
}

var opKinds = []string{
	"commit", "commit", "prove", "prove", "verify", "verify", "ipa", "msm", "msm", "precomp",
	"batchnorm", "tobytes", "decode", "mapfield", "frcodec", "frcodec", "transcript", "uncompressed", "groupops",
	"readproof", "readproof", "readproof-short", "readpoint-short",
	"prove-fail", "verify-malformed", "batchnorm-zero", "pipe-roundtrip", "pipe-roundtrip",
}

func genOp(r *Rng) OpSpec {
	k := opKinds[r.Intn(len(opKinds))]
	o := OpSpec{Kind: k, Seed: r.U64()}
	switch k {
	case "prove", "verify", "readproof", "readproof-short", "prove-fail", "verify-malformed", "pipe-roundtrip":
		o.Size = 1 + r.Intn(3)
	case "msm":
		o.Size = r.Pick([]int{1, 2, 3, 8, 20, 64, 130})
	case "batchnorm", "tobytes", "mapfield":
		o.Size = 1 + r.Intn(40)
	}
	return o
}

// digest hashes the observable outputs of an operation. It deliberately avoids
// package fmt: fmt recycles its printers through a sync.Pool, and pool hand-overs
// are happens-before edges that would hide races between client tasks from the
// race detector in a non-deterministic way.
func digest(parts ...interface{}) string {
	h := sha256.New()
	var put func(p interface{})
	w64 := func(v uint64) {
		var b [8]byte
		for i := range b {
			b[i] = byte(v >> (8 * i))
		}
		h.Write(b[:])
	}
	put = func(p interface{}) {
		switch v := p.(type) {
		case nil:
			h.Write([]byte{0})
		case string:
			h.Write([]byte(v))
		case []byte:
			h.Write(v)
		case bool:
			if v {
				h.Write([]byte{1})
			} else {
				h.Write([]byte{2})
			}
		case error:
			h.Write([]byte("error"))
		case [32]byte:
			h.Write(v[:])
		case [64]byte:
			h.Write(v[:])
		case [12]uint64:
			for _, x := range v {
				w64(x)
			}
		case fr.Element:
			for _, x := range v {
				w64(x)
			}
		case [][32]byte:
			for _, x := range v {
				h.Write(x[:])
			}
		case [][64]byte:
			for _, x := range v {
				h.Write(x[:])
			}
		case []interface{}:
			for _, x := range v {
				put(x)
			}
		default:
			panic("digest: unsupported type")
		}
		h.Write([]byte{'|'})
	}
	for _, p := range parts {
		put(p)
	}
	const hexd = "0123456789abcdef"
	sum := h.Sum(nil)[:12]
	out := make([]byte, 24)
	for i, b := range sum {
		out[2*i], out[2*i+1] = hexd[b>>4], hexd[b&15]
	}
	return string(out)
}

func sparsePoly(r *Rng) []fr.Element {
	f := make([]fr.Element, 256)
	if r.Chance(30) {
		for j := range f {
			f[j] = FrFromBig(r.Scalar())
		}
		return f
	}
	for k := 0; k < 1+r.Intn(6); k++ {
		f[r.Intn(256)] = FrFromBig(r.Scalar())
	}
	return f
}

// honestSmall creates an honest proof (n openings) deterministically from seed.
func honestSmall(seed uint64, n int) (label string, Cs []*banderwagon.Element, fs [][]fr.Element, zs []uint8, ys []*fr.Element) {
	cfg := env.Config()
	r := NewRng(seed, n, "honestSmall")
	label = genLabel(r)
	for i := 0; i < n; i++ {
		f := sparsePoly(r)
		c := cfg.Commit(f)
		z := uint8(r.Intn(256))
		y := f[z]
		Cs = append(Cs, &c)
		fs = append(fs, f)
		zs = append(zs, z)
		ys = append(ys, &y)
	}
	return
}

// runOp executes one operation and returns the digest of its observable output.
func runOp(o OpSpec) string {
	cfg := env.Config()
	r := NewRng(o.Seed, o.Size, "op:"+o.Kind)
	_, poolP := env.Pool()
	switch o.Kind {
	case "commit":
		c := cfg.Commit(sparsePoly(r))
		return digest(c.Bytes())
	case "prove":
		label, Cs, fs, zs, _ := honestSmall(o.Seed, o.Size)
		tr := common.NewTranscript(label)
		p, err := multiproof.CreateMultiProof(tr, cfg, Cs, fs, zs)
		if err != nil {
			return digest("err")
		}
		var b bytes.Buffer
		werr := p.Write(&b)
		nx := tr.ChallengeScalar([]byte("n"))
		return digest(b.Bytes(), werr, nx)
	case "readproof", "readproof-short", "readpoint-short":
		// deserialisation from a slow, chunked stream: every Read call of the stream is a
		// scheduling point, so other clients run while this decoder is in the middle of a record
		label, Cs, fs, zs, _ := honestSmall(o.Seed, o.Size)
		p, err := multiproof.CreateMultiProof(common.NewTranscript(label), cfg, Cs, fs, zs)
		if err != nil {
			return digest("err")
		}
		var b bytes.Buffer
		p.Write(&b)
		data := b.Bytes()
		spec := ReaderSpec{Chunk: []string{"1", "random", "random"}[r.Intn(3)], ChunkSeed: r.U64(), EOFWithData: r.Bool(), YieldOnRead: true}
		switch o.Kind {
		case "readproof-short":
			data = data[:r.Intn(576)]
		case "readpoint-short":
			pt, err := common.ReadPoint(NewSimReader(data[:r.Intn(32)], spec))
			return digest(pt == nil, err != nil)
		}
		var q multiproof.MultiProof
		rerr := q.Read(NewSimReader(data, spec))
		if rerr != nil {
			return digest("reject")
		}
		var b2 bytes.Buffer
		q.Write(&b2)
		return digest(b2.Bytes(), q.Equal(*p))
	case "pipe-roundtrip":
		// prover node -> synchronous stream -> verifier node: one task serialises the proof into
		// a pipe while this task deserialises it from the other end
		label, Cs, fs, zs, ys := honestSmall(o.Seed, o.Size)
		p, err := multiproof.CreateMultiProof(common.NewTranscript(label), cfg, Cs, fs, zs)
		if err != nil {
			return digest("err")
		}
		pipe := NewSimPipe()
		werrCh := make(chan bool, 1)
		verifsim.Go(siteSimPipe, func() {
			werr := p.Write(pipe)
			pipe.CloseWrite()
			werrCh <- werr != nil
		})
		var q multiproof.MultiProof
		rerr := q.Read(pipe)
		wfailed := verifsim.Recv(werrCh, siteSimPipe)
		if rerr != nil {
			return digest("reject", wfailed)
		}
		ok, verr := multiproof.CheckMultiProof(common.NewTranscript(label), cfg, &q, Cs, ys, zs)
		return digest(ok, verr != nil, wfailed, q.Equal(*p))
	case "prove-fail", "verify-malformed":
		// rarely taken error paths, concurrently with everything else
		label, Cs, fs, zs, ys := honestSmall(o.Seed, o.Size)
		if o.Kind == "prove-fail" {
			switch r.Intn(3) {
			case 0:
				zs = zs[:len(zs)-1]
			case 1:
				fs[0] = fs[0][:100]
			default:
				Cs = append(Cs, &banderwagon.Element{})
				fs = append(fs, fs[0])
				zs = append(zs, 0)
			}
			_, err := multiproof.CreateMultiProof(common.NewTranscript(label), cfg, Cs, fs, zs)
			return digest(err != nil)
		}
		p, err := multiproof.CreateMultiProof(common.NewTranscript(label), cfg, Cs, fs, zs)
		if err != nil {
			return digest("err")
		}
		bad := *p
		bad.IPA.L = bad.IPA.L[:1+r.Intn(7)]
		ok, err := multiproof.CheckMultiProof(common.NewTranscript(label), cfg, &bad, Cs, ys, zs)
		ok2, err2 := multiproof.CheckMultiProof(common.NewTranscript(label), cfg, p, Cs, ys, zs)
		return digest(ok, err != nil, ok2, err2 != nil)
	case "batchnorm-zero":
		n := 2 + r.Intn(6)
		els := make([]*banderwagon.Element, n)
		for j := range els {
			e := ElemFromRef(poolP[r.Intn(poolSize)], Repr(r.Intn(int(NumReprs))), r.Scalar())
			els[j] = &e
		}
		els[r.Intn(n)] = &banderwagon.Element{}
		err := banderwagon.BatchNormalize(els)
		var raw []interface{}
		for _, e := range els {
			raw = append(raw, elemRaw(e))
		}
		return digest(err != nil, raw)
	case "verify":
		label, Cs, fs, zs, ys := honestSmall(o.Seed, o.Size)
		p, err := multiproof.CreateMultiProof(common.NewTranscript(label), cfg, Cs, fs, zs)
		if err != nil {
			return digest("err")
		}
		if r.Bool() { // a wrong claim must be rejected, also under concurrency
			var one fr.Element
			one.SetOne()
			y := *ys[0]
			y.Add(&y, &one)
			ys[0] = &y
		}
		ok, err := multiproof.CheckMultiProof(common.NewTranscript(label), cfg, p, Cs, ys, zs)
		return digest(ok, err)
	case "ipa":
		f := sparsePoly(r)
		c := cfg.Commit(f)
		var z fr.Element
		if r.Bool() {
			z = FrFromBig(big.NewInt(int64(r.Intn(256))))
		} else {
			z = FrFromBig(r.Scalar())
		}
		tr := common.NewTranscript("ipa")
		p, err := ipa.CreateIPAProof(tr, cfg, c, f, z)
		if err != nil {
			return digest("err")
		}
		var b bytes.Buffer
		p.Write(&b)
		// evaluate independently of the prover to get the claimed result
		var res fr.Element
		zb := FrToBig(z)
		if zb.Cmp(big.NewInt(255)) <= 0 {
			res = f[zb.Int64()]
		} else {
			bc := cfg.PrecomputedWeights.ComputeBarycentricCoefficients(z)
			res, _ = ipa.InnerProd(f, bc)
		}
		ok, err := ipa.CheckIPAProof(common.NewTranscript("ipa"), cfg, c, p, z, res)
		return digest(b.Bytes(), ok, err)
	case "msm":
		n := o.Size
		pts := make([]banderwagon.Element, n)
		sc := make([]fr.Element, n)
		for j := range pts {
			pts[j] = ElemFromRef(poolP[r.Intn(poolSize)], Repr(r.Intn(int(NumReprs))), r.Scalar())
			sc[j] = FrFromBig(r.Scalar())
		}
		if r.Bool() {
			e, err := ipa.MultiScalar(pts, sc)
			return digest(e.Bytes(), err)
		}
		var e banderwagon.Element
		e.SetIdentity()
		_, err := e.MultiExp(pts, sc, banderwagon.MultiExpConfig{NbTasks: 1 + r.Intn(40), ScalarsMont: true})
		return digest(e.Bytes(), err)
	case "precomp":
		pt := ElemFromRef(poolP[r.Intn(poolSize)], ReprAffine, nil)
		pp, err := banderwagon.NewPrecompPoint(pt, 8)
		if err != nil {
			return digest("err")
		}
		res := bandersnatch.IdentityExt
		pp.ScalarMul(FrFromBig(r.Scalar()), &res)
		e := banderwagon.Element{}
		l := elemLayoutOf(&e)
		l.X, l.Y, l.Z = res.X, res.Y, res.Z
		return digest(e.Bytes())
	case "batchnorm":
		n := o.Size
		els := make([]*banderwagon.Element, n)
		for j := range els {
			e := ElemFromRef(poolP[r.Intn(poolSize)], Repr(r.Intn(int(NumReprs))), r.Scalar())
			els[j] = &e
			if j > 0 && r.Chance(20) {
				els[j] = els[r.Intn(j)]
			}
		}
		err := banderwagon.BatchNormalize(els)
		var raw []interface{}
		for _, e := range els {
			raw = append(raw, elemRaw(e))
		}
		return digest(err, raw)
	case "tobytes":
		n := o.Size
		els := make([]*banderwagon.Element, n)
		for j := range els {
			e := ElemFromRef(poolP[r.Intn(poolSize)], Repr(r.Intn(int(NumReprs))), r.Scalar())
			els[j] = &e
		}
		return digest(banderwagon.ElementsToBytes(els...), banderwagon.BatchToBytesUncompressed(els...))
	case "decode":
		enc := poolP[r.Intn(poolSize)].Encode()
		if r.Chance(30) {
			enc[r.Intn(32)] ^= 1 << uint(r.Intn(8))
		}
		var e banderwagon.Element
		err := e.SetBytes(enc[:])
		if err != nil {
			return digest("reject")
		}
		return digest(e.Bytes())
	case "mapfield":
		n := o.Size
		els := make([]*banderwagon.Element, n)
		outs := make([]*fr.Element, n)
		for j := range els {
			e := ElemFromRef(poolP[r.Intn(poolSize)], Repr(r.Intn(int(NumReprs))), r.Scalar())
			els[j] = &e
			outs[j] = new(fr.Element)
		}
		err := banderwagon.BatchMapToScalarField(outs, els)
		var single fr.Element
		els[0].MapToScalarField(&single)
		var vals []interface{}
		for _, v := range outs {
			vals = append(vals, *v)
		}
		return digest(err, single, vals)
	case "frcodec":
		// big.Int pool users: SetBytes, SetBytesLE, SetString, String, SetBigInt
		s := r.Scalar()
		var a, b, c, d fr.Element
		be := be32(s)
		a.SetBytes(be)
		b.SetBytesLE(le32(s))
		c.SetString(s.String())
		wide := new(big.Int).Add(new(big.Int).Lsh(s, 13), big.NewInt(int64(r.Intn(1000))))
		d.SetBigInt(wide)
		_, cerr := new(fr.Element).SetBytesLECanonical(le32(s))
		return digest(a, b, c, d, a.String(), d.String(), cerr)
	case "transcript":
		tr := common.NewTranscript(genLabel(r))
		var out []interface{}
		for k := 0; k < 2+r.Intn(5); k++ {
			s := FrFromBig(r.Scalar())
			tr.AppendScalar(&s, []byte("s"))
			if r.Bool() {
				e := ElemFromRef(poolP[r.Intn(poolSize)], Repr(r.Intn(int(NumReprs))), r.Scalar())
				tr.AppendPoint(&e, []byte("p"))
			}
			if r.Bool() {
				c := tr.ChallengeScalar([]byte("c"))
				out = append(out, c)
			}
		}
		out = append(out, tr.ChallengeScalar([]byte("end")))
		return digest(out)
	case "uncompressed":
		e := ElemFromRef(poolP[r.Intn(poolSize)], Repr(r.Intn(int(NumReprs))), r.Scalar())
		u := e.BytesUncompressedTrusted()
		var back, back2 banderwagon.Element
		err1 := back.SetBytesUncompressed(u[:], true)
		err2 := back2.SetBytesUncompressed(u[:], false)
		return digest(u, err1, err2 == nil, back.Bytes())
	case "groupops":
		a := ElemFromRef(poolP[r.Intn(poolSize)], Repr(r.Intn(int(NumReprs))), r.Scalar())
		b := ElemFromRef(poolP[r.Intn(poolSize)], Repr(r.Intn(int(NumReprs))), r.Scalar())
		var s, d, dd, m banderwagon.Element
		s.Add(&a, &b)
		d.Sub(&a, &b)
		dd.Double(&a)
		k := FrFromBig(r.Scalar())
		m.ScalarMul(&a, &k)
		g := banderwagon.Generator
		id := banderwagon.Identity
		return digest(s.Bytes(), d.Bytes(), dd.Bytes(), m.Bytes(), g.Bytes(), id.Bytes(), s.Equal(&d))
	}
	return digest("unknown", o.Kind)
}
