package harness

import (
	"hash/maphash"
	"reflect"
	"sort"
	"strings"
	"unsafe"
)

// Deep state fingerprints for C13: a reflect+unsafe walk over everything
// reachable from a root (unexported fields included, pointers followed, cycles
// cut), hashed with a per-process seeded maphash. Only equality within one
// process matters. Memory of pointer-free element types is hashed raw.

var fpSeed = maphash.MakeSeed()

type fpWalker struct {
	lax     bool // nil and empty maps/slices hash alike (used to recognise "holds no data yet")
	toCap   bool // slices of pointer-free elements are hashed up to their capacity (arena-owned memory)
	h       maphash.Hash
	visited map[visitKey]bool
	bytes   int64
	skipped map[string]int
}

type visitKey struct {
	p unsafe.Pointer
	t reflect.Type
}

func newWalker() *fpWalker {
	w := &fpWalker{visited: map[visitKey]bool{}, skipped: map[string]int{}}
	w.h.SetSeed(fpSeed)
	return w
}

func (w *fpWalker) raw(p unsafe.Pointer, n int) {
	if n > 0 {
		w.h.Write(unsafe.Slice((*byte)(p), n))
		w.bytes += int64(n)
	}
}

func (w *fpWalker) u64(v uint64) {
	var b [8]byte
	for i := range b {
		b[i] = byte(v >> (8 * i))
	}
	w.h.Write(b[:])
}

func skipType(t reflect.Type) bool {
	p := t.PkgPath()
	return p == "sync" || p == "sync/atomic" || strings.HasPrefix(p, "internal/") || p == "runtime"
}

func (w *fpWalker) walk(v reflect.Value) {
	t := v.Type()
	if skipType(t) {
		w.skipped[t.String()]++
		return
	}
	if !hasPointers(t) {
		if v.CanAddr() {
			w.raw(unsafe.Pointer(v.UnsafeAddr()), int(t.Size()))
		} else {
			// copy to an addressable temporary
			tmp := reflect.New(t).Elem()
			tmp.Set(v)
			w.raw(unsafe.Pointer(tmp.UnsafeAddr()), int(t.Size()))
		}
		return
	}
	switch t.Kind() {
	case reflect.Struct:
		for i := 0; i < t.NumField(); i++ {
			w.walk(access(v.Field(i)))
		}
	case reflect.Array:
		for i := 0; i < v.Len(); i++ {
			w.walk(v.Index(i))
		}
	case reflect.Slice:
		w.u64(uint64(v.Len()))
		if v.IsNil() {
			if !w.lax {
				w.u64(0xdead)
			}
			return
		}
		if v.Len() == 0 && !(w.toCap && v.Cap() > 0 && !hasPointers(t.Elem())) {
			return
		}
		if !hasPointers(t.Elem()) {
			n := v.Len()
			if w.toCap {
				n = v.Cap()
			}
			w.raw(unsafe.Pointer(v.Pointer()), n*int(t.Elem().Size()))
			return
		}
		for i := 0; i < v.Len(); i++ {
			w.walk(v.Index(i))
		}
	case reflect.Ptr:
		if v.IsNil() {
			w.u64(0xdead)
			return
		}
		k := visitKey{unsafe.Pointer(v.Pointer()), t}
		if w.visited[k] {
			w.u64(0xc1c1e)
			return
		}
		w.visited[k] = true
		w.walk(v.Elem())
	case reflect.Interface:
		if v.IsNil() {
			w.u64(0xdead)
			return
		}
		e := v.Elem()
		w.h.WriteString(e.Type().String())
		if e.Kind() == reflect.Ptr {
			w.walk(e)
			return
		}
		tmp := reflect.New(e.Type()).Elem()
		tmp.Set(e)
		w.walk(tmp)
	case reflect.String:
		w.h.WriteString(v.String())
		w.u64(uint64(v.Len()))
	case reflect.Map:
		w.u64(uint64(v.Len()))
		if v.IsNil() {
			if !w.lax {
				w.u64(0xdead)
			}
			return
		}
		type kv struct {
			k uint64
			v reflect.Value
		}
		var items []kv
		it := v.MapRange()
		for it.Next() {
			sub := newWalker()
			kk := reflect.New(t.Key()).Elem()
			kk.Set(it.Key())
			sub.walk(kk)
			vv := reflect.New(t.Elem()).Elem()
			vv.Set(it.Value())
			items = append(items, kv{sub.h.Sum64(), vv})
		}
		sort.Slice(items, func(i, j int) bool { return items[i].k < items[j].k })
		for _, it := range items {
			w.u64(it.k)
			w.walk(it.v)
		}
	case reflect.Func, reflect.Chan, reflect.UnsafePointer:
		w.skipped[t.Kind().String()]++
	default:
		w.skipped["kind:"+t.Kind().String()]++
	}
}

// CapFingerprint is Fingerprint with pointer-free slices hashed up to their capacity: the spare
// capacity behind a caller-owned slice is caller memory too (an append must not land there).
func CapFingerprint(x interface{}) uint64 {
	w := newWalker()
	w.toCap = true
	v := reflect.ValueOf(x)
	if v.Kind() == reflect.Ptr && !v.IsNil() {
		w.walk(v.Elem())
	} else {
		tmp := reflect.New(v.Type()).Elem()
		tmp.Set(v)
		w.walk(tmp)
	}
	return w.h.Sum64()
}

// LaxFingerprint is Fingerprint with nil and empty maps/slices hashing alike.
func LaxFingerprint(x interface{}) uint64 {
	w := newWalker()
	w.lax = true
	v := reflect.ValueOf(x)
	if v.Kind() == reflect.Ptr && !v.IsNil() {
		w.walk(v.Elem())
	} else {
		tmp := reflect.New(v.Type()).Elem()
		tmp.Set(v)
		w.walk(tmp)
	}
	return w.h.Sum64()
}

// Fingerprint hashes everything reachable from the value x points to.
func Fingerprint(x interface{}) uint64 {
	w := newWalker()
	v := reflect.ValueOf(x)
	if v.Kind() == reflect.Ptr && !v.IsNil() {
		w.walk(v.Elem())
	} else {
		tmp := reflect.New(v.Type()).Elem()
		tmp.Set(v)
		w.walk(tmp)
	}
	return w.h.Sum64()
}
