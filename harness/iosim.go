package harness

import (
	"errors"
	"io"

	"github.com/crate-crypto/go-ipa/verifsim"
)

// iosim: the simulated reader/writer behind the io.Reader/io.Writer seam.

var ErrInjectedRead = errors.New("iosim: injected read error")
var ErrInjectedWrite = errors.New("iosim: injected write error")

type ReadFault struct {
	Offset   int  `json:"offset"`    // the error fires when the stream position reaches this byte offset
	Sticky   bool `json:"sticky"`    // every later call fails too (otherwise one-shot)
	WithData bool `json:"with_data"` // reported together with the bytes that reach the offset, not on a call of its own
}

type ReaderSpec struct {
	Chunk     string     `json:"chunk"` // "1" | "all" | "random"
	ChunkSeed uint64     `json:"chunk_seed,omitempty"`
	EOFWithData bool     `json:"eof_with_last_data,omitempty"`
	Fault     *ReadFault `json:"fault,omitempty"`
	YieldOnRead bool     `json:"yield_on_read,omitempty"` // every Read call is a scheduling point (a slow stream): other tasks may run while a decoder is mid-record
}

type SimReader struct {
	data   []byte
	pos    int
	spec   ReaderSpec
	rng    *Rng
	fired  bool
	sticky error
	Calls  int
	EOFs   int
}

func NewSimReader(data []byte, spec ReaderSpec) *SimReader {
	return &SimReader{data: data, spec: spec, rng: NewRng(spec.ChunkSeed, len(data), "chunks")}
}

func (r *SimReader) Pos() int       { return r.pos }
func (r *SimReader) FaultFired() bool { return r.fired }

var siteSimReader = verifsim.HarnessSite("harness:SimReader.Read (stream delay)")

func (r *SimReader) Read(p []byte) (int, error) {
	r.Calls++
	if r.spec.YieldOnRead {
		verifsim.Yield(siteSimReader)
	}
	if len(p) == 0 {
		return 0, nil
	}
	if r.sticky != nil {
		return 0, r.sticky
	}
	max := len(r.data) - r.pos
	if len(p) < max {
		max = len(p)
	}
	f := r.spec.Fault
	if f != nil && !r.fired {
		until := f.Offset - r.pos
		if until <= 0 || (!f.WithData && until <= 0) {
			r.fired = true
			if f.Sticky {
				r.sticky = ErrInjectedRead
			}
			return 0, ErrInjectedRead
		}
		if max > until {
			max = until
		}
	}
	if len(r.data)-r.pos == 0 {
		r.EOFs++
		return 0, io.EOF
	}
	n := max
	switch r.spec.Chunk {
	case "1":
		n = 1
	case "random":
		n = 1 + r.rng.Intn(max)
	}
	if n > max {
		n = max
	}
	copy(p, r.data[r.pos:r.pos+n])
	r.pos += n
	if f != nil && !r.fired && f.WithData && r.pos == f.Offset {
		r.fired = true
		if f.Sticky {
			r.sticky = ErrInjectedRead
		}
		return n, ErrInjectedRead
	}
	if r.pos == len(r.data) && r.spec.EOFWithData {
		r.EOFs++
		return n, io.EOF
	}
	return n, nil
}

type WriterSpec struct {
	FailCall int    `json:"fail_call"` // index of the Write call that fails, -1 = none
	Mode     string `json:"mode,omitempty"` // "zero" | "partial" | "afterfull"
	OneShot  bool   `json:"one_shot,omitempty"` // later calls succeed again (otherwise the writer stays failed)
}

type SimWriter struct {
	spec  WriterSpec
	Buf   []byte
	Calls int
	Fired bool
}

func NewSimWriter(spec WriterSpec) *SimWriter { return &SimWriter{spec: spec} }

func (w *SimWriter) Write(p []byte) (int, error) {
	c := w.Calls
	w.Calls++
	if w.Fired && !w.spec.OneShot {
		return 0, ErrInjectedWrite // a failed writer stays failed
	}
	if w.spec.FailCall >= 0 && c == w.spec.FailCall {
		w.Fired = true
		switch w.spec.Mode {
		case "partial":
			n := len(p) / 2
			w.Buf = append(w.Buf, p[:n]...)
			return n, ErrInjectedWrite
		case "afterfull":
			w.Buf = append(w.Buf, p...)
			return len(p), ErrInjectedWrite
		}
		return 0, ErrInjectedWrite
	}
	w.Buf = append(w.Buf, p...)
	return len(p), nil
}

// SimPipe is a synchronous in-simulation byte stream between two tasks (like io.Pipe): a Write
// blocks until a reader has taken the bytes. Built on a bubble channel, so the simulator sees
// both ends as tasks blocked in channel operations.
type SimPipe struct {
	ch     chan []byte
	rest   []byte
	closed bool
}

var siteSimPipe = verifsim.HarnessSite("harness:SimPipe")

func NewSimPipe() *SimPipe { return &SimPipe{ch: make(chan []byte)} }

func (p *SimPipe) Write(b []byte) (int, error) {
	cp := append([]byte{}, b...)
	verifsim.Send(p.ch, cp, siteSimPipe)
	return len(b), nil
}

func (p *SimPipe) CloseWrite() { verifsim.Close(p.ch, siteSimPipe) }

func (p *SimPipe) Read(b []byte) (int, error) {
	if len(p.rest) == 0 {
		if p.closed {
			return 0, io.EOF
		}
		chunk, ok := verifsim.Recv2(p.ch, siteSimPipe)
		if !ok {
			p.closed = true
			return 0, io.EOF
		}
		p.rest = chunk
	}
	n := copy(b, p.rest)
	p.rest = p.rest[n:]
	return n, nil
}
