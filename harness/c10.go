package harness

import (
	"bytes"
	"crypto/sha256"
	"encoding/json"
	"fmt"
	"math/big"

	multiproof "github.com/crate-crypto/go-ipa"
	"github.com/crate-crypto/go-ipa/bandersnatch"
	"github.com/crate-crypto/go-ipa/bandersnatch/fr"
	"github.com/crate-crypto/go-ipa/banderwagon"
	"github.com/crate-crypto/go-ipa/common"
	"github.com/crate-crypto/go-ipa/ipa"
	"verif/refmodel"
)

// C10 — proof (de)serialisation is total, canonical and robust to I/O faults.
// No scheduler here: the simulated parts are the io.Reader / io.Writer arguments.

type C10Mut struct {
	Field int    `json:"field"` // 32-byte field index (multi: 0=D, 1..8=L, 9..16=R, 17=a)
	Kind  string `json:"kind"`
	Seed  uint64 `json:"seed,omitempty"`
}

type C10Plan struct {
	Kind     string      `json:"kind"` // multi | ipa | point | scalar | uncompressed
	Op       string      `json:"op"`   // read | write
	Base     int         `json:"base"` // honest proof index, -1 = random bytes
	RandSeed uint64      `json:"rand_seed,omitempty"`
	Len      int         `json:"len"` // -1 natural; otherwise the input is cut/extended (with RandSeed bytes) to this length
	Muts     []C10Mut    `json:"mutations,omitempty"`
	Flip     int         `json:"flip_offset"` // -1 none; else one bit of this byte is flipped
	FlipBit  int         `json:"flip_bit,omitempty"`
	Reader   ReaderSpec  `json:"reader"`
	Writer   WriterSpec  `json:"writer"`
	ReprSeed uint64      `json:"repr_seed,omitempty"` // write: proof elements handed over in non-normalised / sign-flipped representations
	Reuse    bool        `json:"reuse_receiver,omitempty"` // read: the receiver already holds another, earlier read proof
	ReuseFailed bool     `json:"reuse_after_failed_read,omitempty"` // ... or went through a Read that failed half-way
	Stream   int         `json:"stream_records,omitempty"` // ipa: this many valid records back to back on ONE stream, read one after the other
}

type c10 struct{}

func init() { register("C10", &c10{}) }

var c10honest [][]byte // 576-byte honest multiproofs
var c10refCache = map[[32]byte]bool{}

const nHonest = 4

func (*c10) Prepare(string) {
	cfg := env.Config()
	r := NewRng(0xc10, 0, "honest")
	for k := 0; k < nHonest; k++ {
		n := 1 + k
		var Cs []*banderwagon.Element
		var fs [][]fr.Element
		var zs []uint8
		for i := 0; i < n; i++ {
			f := make([]fr.Element, 256)
			for j := range f {
				f[j] = FrFromBig(r.Scalar())
			}
			c := cfg.Commit(f)
			Cs = append(Cs, &c)
			fs = append(fs, f)
			zs = append(zs, uint8(r.Intn(256)))
		}
		tr := common.NewTranscript("c10")
		proof, err := multiproof.CreateMultiProof(tr, cfg, Cs, fs, zs)
		if err != nil {
			panic(err)
		}
		var buf bytes.Buffer
		if err := proof.Write(&buf); err != nil {
			panic(err)
		}
		c10honest = append(c10honest, buf.Bytes())
	}
}

var pointKinds = []string{"x=0", "x=1", "x=p-1", "x=p", "x+p", "x=2^256-1", "non-subgroup", "off-curve", "negated", "random", "other-honest", "p-limbs"}
var scalarKinds = []string{"r-1", "r", "r+1", "2^256-1", "0", "random<r", "random>=r", "x+r", "r-limbs", "r-limbs", "r-limbs"}

func genReader(r *Rng) ReaderSpec {
	return ReaderSpec{Chunk: []string{"1", "all", "random"}[r.Intn(3)], ChunkSeed: r.U64(), EOFWithData: r.Bool()}
}

func natLen(kind string) int {
	switch kind {
	case "multi":
		return 576
	case "ipa":
		return 544
	case "uncompressed":
		return 64
	}
	return 32
}

func nFields(kind string) int { return natLen(kind) / 32 }

func (*c10) Gen(seed uint64, run int, tier, variant string) interface{} {
	if variant == "enum" {
		return c10enum(run)
	}
	r := NewRng(seed, run, "C10")
	p := C10Plan{Len: -1, Flip: -1, Writer: WriterSpec{FailCall: -1}}
	p.Kind = []string{"multi", "multi", "multi", "ipa", "ipa", "point", "scalar", "uncompressed"}[r.Intn(8)]
	p.Base = r.Intn(nHonest)
	p.RandSeed = r.U64()
	p.Reader = genReader(r)
	nl := natLen(p.Kind)
	if r.Chance(22) {
		p.Op = "write"
		if r.Chance(40) {
			p.ReprSeed = r.U64() | 1
		}
		if r.Chance(70) {
			p.Writer = WriterSpec{FailCall: r.Intn(nFields(p.Kind) + 1), Mode: []string{"zero", "partial", "afterfull"}[r.Intn(3)], OneShot: r.Bool()}
		}
		return &p
	}
	p.Op = "read"
	p.Reuse = r.Chance(20)
	p.ReuseFailed = p.Reuse && r.Bool()
	if r.Chance(4) {
		p.Kind = "ipa"
		p.Stream = 2 + r.Intn(3)
		return &p
	}
	switch r.Intn(12) {
	case 0: // honest, chunking/EOF style only
	case 1, 2: // field-wise boundary substitution
		nm := 1
		if r.Chance(15) {
			nm = 2
		}
		for i := 0; i < nm; i++ {
			f := r.Intn(nFields(p.Kind))
			p.Muts = append(p.Muts, C10Mut{Field: f, Kind: "auto", Seed: r.U64()})
		}
	case 3: // flipped byte
		p.Flip = r.Intn(nl)
		p.FlipBit = r.Intn(8)
	case 4: // random string of the natural length
		p.Base = -1
	case 5: // every length
		p.Len = r.Intn(701)
		if r.Bool() {
			p.Base = -1
		}
	case 6: // trailing data
		p.Len = nl + r.Pick([]int{1, 1, 1, 2, 31, 32, 33, 124})
	case 7: // truncation
		p.Len = r.Intn(nl)
	case 8, 9, 10: // read error at an offset
		p.Reader.Fault = &ReadFault{Offset: r.Intn(nl + 1), Sticky: r.Bool(), WithData: r.Bool()}
	case 11: // read error plus damaged input
		p.Reader.Fault = &ReadFault{Offset: r.Intn(nl + 1), Sticky: r.Bool(), WithData: r.Bool()}
		p.Flip = r.Intn(nl)
	}
	return &p
}

// c10enum enumerates the fault space deterministically (thorough tier).
func c10enum(i int) *C10Plan {
	p := &C10Plan{Len: -1, Flip: -1, Writer: WriterSpec{FailCall: -1}, Op: "read", Kind: "multi"}
	chunks := []string{"1", "all", "random"}
	take := func(n int) int { v := i % n; i /= n; return v }
	p.Base = take(2)
	kindSel := take(2)
	if kindSel == 1 {
		p.Kind = "ipa"
	}
	nl := natLen(p.Kind)
	p.Reader.Chunk = chunks[take(3)]
	p.Reader.ChunkSeed = uint64(i)*2654435761 + 17
	p.Reader.EOFWithData = take(2) == 1
	group := take(6)
	switch group {
	case 0: // truncation at every offset
		p.Len = take(nl + 1)
	case 1: // read error at every offset x sticky x with-data
		f := &ReadFault{}
		f.Sticky = take(2) == 1
		f.WithData = take(2) == 1
		f.Offset = take(nl + 1)
		p.Reader.Fault = f
	case 2: // flipped byte at every offset, 2 bit positions
		p.FlipBit = []int{0, 7}[take(2)]
		p.Flip = take(nl)
	case 3: // every field x every boundary kind
		f := take(nFields(p.Kind))
		kinds := pointKinds
		if f == nFields(p.Kind)-1 {
			kinds = scalarKinds
		}
		k := take(len(pointKinds))
		p.Muts = []C10Mut{{Field: f, Kind: kinds[k%len(kinds)], Seed: uint64(i)*7919 + 3}}
	case 4: // every length 0..700 (honest prefix + random extension / random)
		p.Len = take(701)
		if take(2) == 1 {
			p.Base = -1
			p.RandSeed = uint64(p.Len)*31 + 5
		}
	case 5: // writer failing at every call x mode
		p.Op = "write"
		p.Writer.Mode = []string{"zero", "partial", "afterfull"}[take(3)]
		p.Writer.OneShot = take(2) == 1
		p.Writer.FailCall = take(nFields(p.Kind)+2) - 1
	}
	return p
}

const c10enumTotal = 2 * 2 * 3 * 2 * 6 * 2400

func (*c10) Decode(raw json.RawMessage) (interface{}, error) {
	var p C10Plan
	p.Len, p.Flip, p.Writer.FailCall = -1, -1, -1
	err := json.Unmarshal(raw, &p)
	return &p, err
}

func (*c10) Sched(plan interface{}) []*SimCfg { return nil }

func be32(x *big.Int) []byte {
	var b [32]byte
	x.FillBytes(b[:])
	return b[:]
}

func le32(x *big.Int) []byte {
	b := be32(x)
	for i, j := 0, 31; i < j; i, j = i+1, j-1 {
		b[i], b[j] = b[j], b[i]
	}
	return b
}

var two256 = new(big.Int).Lsh(big.NewInt(1), 256)

func findX(r *Rng, want string) *big.Int {
	for {
		x := r.Scalar()
		x.Add(x, new(big.Int).SetUint64(r.U64()))
		x.Mod(x, refmodel.P)
		_, err := refmodel.Decode(be32(x))
		if err == nil {
			continue
		}
		msg := err.Error()
		isSub := bytes.Contains([]byte(msg), []byte("subgroup"))
		if want == "non-subgroup" && isSub {
			return x
		}
		if want == "off-curve" && !isSub {
			return x
		}
	}
}

func (m C10Mut) apply(data []byte, isScalar bool, honest [][]byte) string {
	off := m.Field * 32
	if off+32 > len(data) {
		return "none"
	}
	r := NewRng(m.Seed, m.Field, "mut")
	kind := m.Kind
	if kind == "auto" {
		if isScalar {
			kind = scalarKinds[r.Intn(len(scalarKinds))]
		} else {
			kind = pointKinds[r.Intn(len(pointKinds))]
		}
	}
	P, R := refmodel.P, refmodel.R
	cur := data[off : off+32]
	var out []byte
	if isScalar {
		v := new(big.Int).SetBytes(le32(new(big.Int).SetBytes(cur))) // LE value of the field
		switch kind {
		case "r-1":
			out = le32(new(big.Int).Sub(R, bigOne))
		case "r":
			out = le32(R)
		case "r+1":
			out = le32(new(big.Int).Add(R, bigOne))
		case "2^256-1":
			out = le32(new(big.Int).Sub(two256, bigOne))
		case "0":
			out = le32(new(big.Int))
		case "random<r":
			out = le32(r.Scalar())
		case "r-limbs":
			// the modulus with single limbs raised/lowered: a limb-wise comparison that gets one
			// (in)equality wrong accepts or rejects exactly these
			out = le32(limbNeighbour(R, r))
		case "x+r":
			y := new(big.Int).Add(v, R)
			if y.Cmp(two256) >= 0 {
				y.Sub(two256, bigOne)
			}
			out = le32(y)
		default:
			kind = "random>=r"
			x := new(big.Int).Add(R, r.Scalar())
			if x.Cmp(two256) >= 0 {
				x.Sub(two256, bigOne)
			}
			out = le32(x)
		}
	} else {
		x := new(big.Int).SetBytes(cur)
		switch kind {
		case "x=0":
			out = be32(new(big.Int))
		case "x=1":
			out = be32(bigOne)
		case "x=p-1":
			out = be32(new(big.Int).Sub(P, bigOne))
		case "x=p":
			out = be32(P)
		case "x+p":
			y := new(big.Int).Add(x, P)
			if y.Cmp(two256) >= 0 {
				y = new(big.Int).Set(P)
				kind = "x=p"
			}
			out = be32(y)
		case "x=2^256-1":
			out = be32(new(big.Int).Sub(two256, bigOne))
		case "p-limbs":
			out = be32(limbNeighbour(P, r))
		case "non-subgroup", "off-curve":
			out = be32(findX(r, kind))
		case "negated":
			out = be32(new(big.Int).Mod(new(big.Int).Neg(x), P))
		case "other-honest":
			h := honest[r.Intn(len(honest))]
			out = append([]byte{}, h[32*r.Intn(17):][:32]...)
		default:
			kind = "random"
			out = make([]byte, 32)
			for i := range out {
				out[i] = byte(r.U64())
			}
		}
	}
	copy(cur, out)
	return kind
}

// limbNeighbour returns m with one 64-bit limb raised and/or another lowered by a small or
// large amount (always in [0, 2^256)).
func limbNeighbour(m *big.Int, r *Rng) *big.Int {
	v := new(big.Int).Set(m)
	amt := func() *big.Int {
		switch r.Intn(3) {
		case 0:
			return big.NewInt(1)
		case 1:
			return new(big.Int).Sub(new(big.Int).Lsh(bigOne, 64), bigOne)
		}
		return new(big.Int).SetUint64(r.U64() | 1)
	}
	i, j := uint(r.Intn(4)), uint(r.Intn(4))
	switch r.Intn(4) {
	case 0:
		v.Add(v, new(big.Int).Lsh(amt(), 64*i))
	case 1:
		v.Sub(v, new(big.Int).Lsh(amt(), 64*i))
	case 2:
		v.Add(v, new(big.Int).Lsh(amt(), 64*i))
		v.Sub(v, new(big.Int).Lsh(amt(), 64*j))
	default:
		// same upper limbs as m, larger limb i, smaller limb j < i
		v.Add(v, new(big.Int).Lsh(bigOne, 64*i))
		if j < i {
			v.Sub(v, new(big.Int).Lsh(amt(), 64*j))
		}
	}
	if v.Sign() < 0 {
		v.Neg(v)
	}
	if v.Cmp(two256) >= 0 {
		v.Mod(v, two256)
	}
	return v
}

// input builds the byte string handed to the reader and a label of its class.
func (p *C10Plan) input() ([]byte, string) {
	nl := natLen(p.Kind)
	var data []byte
	class := "honest"
	rr := NewRng(p.RandSeed, p.Len, "bytes")
	if p.Base >= 0 {
		h := c10honest[p.Base%len(c10honest)]
		switch p.Kind {
		case "multi":
			data = append([]byte{}, h...)
		case "ipa":
			data = append([]byte{}, h[32:]...)
		case "point":
			data = append([]byte{}, h[32*(p.Base%17):][:32]...)
		case "scalar":
			data = append([]byte{}, h[544:]...)
		case "uncompressed":
			pt, err := refmodel.Decode(h[:32])
			if err != nil {
				panic(err)
			}
			u := refmodel.EncodeUncompressed(pt)
			data = u[:]
		}
	} else {
		class = "random"
		data = make([]byte, nl)
		for i := range data {
			data[i] = byte(rr.U64())
		}
	}
	for _, m := range p.Muts {
		isScalar := (p.Kind == "multi" || p.Kind == "ipa") && m.Field == nFields(p.Kind)-1 || p.Kind == "scalar"
		k := m.apply(data, isScalar, c10honest)
		class = fmt.Sprintf("field%d:%s", m.Field, k)
	}
	if p.Flip >= 0 && p.Flip < len(data) {
		data[p.Flip] ^= 1 << uint(p.FlipBit&7)
		class = "bitflip"
	}
	if p.Len >= 0 {
		if p.Len <= len(data) {
			if p.Len < len(data) {
				class += "+truncated"
			}
			data = data[:p.Len]
		} else {
			class += "+trailing"
			for len(data) < p.Len {
				data = append(data, byte(rr.U64()))
			}
		}
	}
	return data, class
}

// refAccepts is the reference acceptance set for a fault-free stream.
func refAccepts(kind string, data []byte) bool {
	key := sha256.Sum256(append([]byte(kind+"|"), data...))
	if v, ok := c10refCache[key]; ok {
		return v
	}
	var ok bool
	switch kind {
	case "multi":
		_, err := refmodel.ParseMultiProof(data)
		ok = err == nil
	case "ipa":
		if len(data) >= 544 {
			_, err := refmodel.ParseIPAProof(data[:544])
			ok = err == nil
		}
	case "point":
		if len(data) >= 32 {
			_, err := refmodel.Decode(data[:32])
			ok = err == nil
		}
	case "scalar":
		if len(data) >= 32 {
			_, err := refmodel.DecodeScalarLECanonical(data[:32])
			ok = err == nil
		}
	case "uncompressed":
		ok = len(data) >= 64 // no validation at this level, by documentation
	}
	if len(c10refCache) < 200000 {
		c10refCache[key] = ok
	}
	return ok
}

type c10read struct {
	err    error
	panicV interface{}
	out    []byte // re-serialisation of the decoded value (fault-free writer)
	werr   error
	equalSelf bool
}

func doRead(kind string, rd *SimReader, reuse []byte) (o c10read) {
	defer func() {
		if r := recover(); r != nil {
			o.panicV = r
		}
	}()
	var w bytes.Buffer
	switch kind {
	case "multi":
		var mp multiproof.MultiProof
		if reuse != nil {
			// the receiver is not fresh: it already went through a Read (successful, or cut short)
			if err := mp.Read(bytes.NewReader(reuse)); err != nil && len(reuse) == 576 {
				panic("harness: honest proof does not parse: " + err.Error())
			}
		}
		o.err = mp.Read(rd)
		if o.err == nil {
			o.werr = mp.Write(&w)
			var mp2 multiproof.MultiProof
			if err := mp2.Read(bytes.NewReader(w.Bytes())); err == nil {
				o.equalSelf = mp2.Equal(mp) && mp.Equal(mp2)
			}
		}
	case "ipa":
		var ip ipa.IPAProof
		if reuse != nil && len(reuse) > 32 {
			if err := ip.Read(bytes.NewReader(reuse[32:])); err != nil && len(reuse) == 576 {
				panic("harness: honest proof does not parse: " + err.Error())
			}
		}
		o.err = ip.Read(rd)
		if o.err == nil {
			o.werr = ip.Write(&w)
			var ip2 ipa.IPAProof
			if err := ip2.Read(bytes.NewReader(w.Bytes())); err == nil {
				o.equalSelf = ip2.Equal(ip) && ip.Equal(ip2)
			}
		}
	case "point":
		pt, err := common.ReadPoint(rd)
		o.err = err
		if err == nil {
			b := pt.Bytes()
			w.Write(b[:])
			o.equalSelf = true
		}
	case "scalar":
		s, err := common.ReadScalar(rd)
		o.err = err
		if err == nil {
			b := s.BytesLE()
			w.Write(b[:])
			o.equalSelf = true
		}
	case "uncompressed":
		a, err := bandersnatch.ReadUncompressedPoint(rd)
		o.err = err
		if err == nil {
			_, o.werr = bandersnatch.WriteUncompressedPoint(&w, &a)
			o.equalSelf = true
		}
	}
	o.out = w.Bytes()
	return
}

// c10stream: several valid IPA proofs back to back on one stream; each Read must return its own
// record and leave the stream positioned exactly at the next one.
func c10stream(p *C10Plan) Result {
	var res Result
	res.Shape = fmt.Sprintf("ipa stream of %d records chunk=%s", p.Stream, p.Reader.Chunk)
	var all []byte
	var recs [][]byte
	for k := 0; k < p.Stream; k++ {
		r := c10honest[(p.Base+k)%len(c10honest)][32:]
		recs = append(recs, r)
		all = append(all, r...)
	}
	rd := NewSimReader(all, p.Reader)
	res.Nontrivial = true
	res.fault("records-back-to-back")
	res.Trace = mix(uint64(p.Stream)*977 + uint64(len(p.Reader.Chunk)))
	for k := 0; k < p.Stream; k++ {
		var ip ipa.IPAProof
		var perr interface{}
		var err error
		func() {
			defer func() { perr = recover() }()
			err = ip.Read(rd)
		}()
		if perr != nil {
			return mergeViolation(res, "panic", "IPAProof.Read panicked on record %d of a stream: %v", k, perr)
		}
		if err != nil {
			return mergeViolation(res, "rejected-valid", "record %d of %d valid IPA proofs read back to back from one stream (chunk=%s) was rejected: %v", k, p.Stream, p.Reader.Chunk, err)
		}
		var w bytes.Buffer
		ip.Write(&w)
		if !bytes.Equal(w.Bytes(), recs[k]) {
			return mergeViolation(res, "not-canonical", "record %d of a stream of IPA proofs decodes to different bytes (the previous Read left the stream misaligned)", k)
		}
		if rd.Pos() != 544*(k+1) {
			return mergeViolation(res, "over-read", "after record %d the stream is at offset %d instead of %d", k, rd.Pos(), 544*(k+1))
		}
	}
	res.OK = true
	return res
}

func (*c10) Exec(plan interface{}) Result {
	p := plan.(*C10Plan)
	if p.Stream > 0 {
		return c10stream(p)
	}
	var res Result
	data, class := p.input()
	nl := natLen(p.Kind)
	if p.Op == "write" {
		return c10write(p, data, class)
	}
	ft := "none"
	if f := p.Reader.Fault; f != nil {
		ft = fmt.Sprintf("readerr@%d sticky=%v withdata=%v", f.Offset, f.Sticky, f.WithData)
	}
	res.Shape = fmt.Sprintf("%s read %s len=%d flip=%d chunk=%s eofwd=%v fault=%s reuse=%v", p.Kind, class, len(data), p.Flip, p.Reader.Chunk, p.Reader.EOFWithData, ft, p.Reuse)
	rd := NewSimReader(data, p.Reader)
	var reuse []byte
	if p.Reuse && (p.Kind == "multi" || p.Kind == "ipa") {
		reuse = c10honest[(p.Base+1+len(c10honest))%len(c10honest)]
		res.fault("receiver-reused")
		if p.ReuseFailed {
			reuse = reuse[:32*(1+int(p.RandSeed%16))+int(p.RandSeed>>8%32)] // the earlier Read broke off inside a field
			res.fault("receiver-reused-after-failed-read")
		}
	}
	got := doRead(p.Kind, rd, reuse)
	if rd.FaultFired() {
		res.fault("read-error")
		if p.Reader.Fault.Sticky {
			res.fault("read-error-sticky")
		}
		if p.Reader.Fault.WithData {
			res.fault("read-error-with-data")
		}
	}
	if p.Reader.EOFWithData && rd.EOFs > 0 {
		res.fault("eof-with-last-data")
	}
	if p.Reader.Chunk != "all" {
		res.fault("chunked-" + p.Reader.Chunk)
	}
	if class != "honest" {
		res.fault("input:" + classGroup(class))
	}
	res.Nontrivial = class != "honest" || rd.FaultFired() || p.Reader.Chunk != "all" || p.Reader.EOFWithData
	res.Trace = mix(uint64(len(data))*31 + uint64(rd.Calls))
	if got.panicV != nil {
		return mergeViolation(res, "panic", "%s Read panicked on a %d-byte input (%s): %v", p.Kind, len(data), class, got.panicV)
	}
	if rd.FaultFired() {
		// Narrow relaxation under an injected read error.
		f := p.Reader.Fault
		delivered := f.Offset
		if delivered > len(data) {
			delivered = len(data)
		}
		if delivered < nl && delivered <= len(data) && f.Sticky {
			if got.err == nil {
				return mergeViolation(res, "accepted-after-read-error", "%s Read returned nil although the reader failed for good after delivering %d of %d bytes", p.Kind, delivered, nl)
			}
			res.OK = true
			return res
		}
		// one-shot error, or error after all bytes: either outcome, but success must
		// decode exactly the bytes of the stream
		if got.err == nil {
			if !refAccepts(p.Kind, data) {
				return mergeViolation(res, "accepted-invalid-under-fault", "%s Read accepted a stream the reference rejects (%s, %d bytes) after a transient read error", p.Kind, class, len(data))
			}
			if !bytes.Equal(got.out, data[:nl]) {
				return mergeViolation(res, "wrong-decode-under-fault", "%s Read succeeded after a transient read error but decoded different bytes", p.Kind)
			}
		}
		res.OK = true
		return res
	}
	want := refAccepts(p.Kind, data)
	if want != (got.err == nil) {
		cls := "rejected-valid"
		if !want {
			cls = "accepted-invalid"
			if len(data) > nl && p.Kind == "multi" {
				cls = "accepted-trailing-data"
				if p.Reader.EOFWithData {
					cls = "accepted-trailing-data-eof-with-data"
				}
			}
		}
		return mergeViolation(res, cls, "%s Read(%s, %d bytes, chunk=%s, eof-with-data=%v): library err=%v, reference accepts=%v", p.Kind, class, len(data), p.Reader.Chunk, p.Reader.EOFWithData, got.err, want)
	}
	if got.err == nil {
		if got.werr != nil {
			return mergeViolation(res, "write-error", "Write of a freshly read %s failed: %v", p.Kind, got.werr)
		}
		// (the raw uncompressed reader reduces its coordinates by documentation: only
		// canonical inputs round-trip, and C10 does not state more than that)
		if !bytes.Equal(got.out, data[:nl]) && !(p.Kind == "uncompressed" && class != "honest") {
			return mergeViolation(res, "not-canonical", "%s: Write(Read(x)) != x for an accepted input (%s)", p.Kind, class)
		}
		if !got.equalSelf {
			return mergeViolation(res, "roundtrip-not-equal", "%s: Read(Write(p)) is not Equal to p", p.Kind)
		}
		if (p.Kind == "ipa" || p.Kind == "point" || p.Kind == "scalar" || p.Kind == "uncompressed") && rd.Pos() != nl {
			return mergeViolation(res, "over-read", "%s Read consumed %d bytes instead of %d", p.Kind, rd.Pos(), nl)
		}
	}
	res.OK = true
	return res
}

func classGroup(c string) string {
	for i := 0; i < len(c); i++ {
		if c[i] == ':' {
			return "field-substitution:" + c[i+1:]
		}
	}
	return c
}

func c10write(p *C10Plan, data []byte, class string) Result {
	var res Result
	res.Shape = fmt.Sprintf("%s write failcall=%d mode=%s oneshot=%v reprs=%v", p.Kind, p.Writer.FailCall, p.Writer.Mode, p.Writer.OneShot, p.ReprSeed != 0)
	if p.ReprSeed != 0 && p.Kind == "multi" {
		res.fault("write-non-normalised-representation")
	}
	nl := natLen(p.Kind)
	w := NewSimWriter(p.Writer)
	var werr error
	var panicV interface{}
	func() {
		defer func() {
			if r := recover(); r != nil {
				panicV = r
			}
		}()
		switch p.Kind {
		case "multi":
			var mp multiproof.MultiProof
			if err := mp.Read(bytes.NewReader(data)); err != nil {
				panicV = "harness: honest proof does not parse: " + err.Error()
				return
			}
			if p.ReprSeed != 0 {
				rr := NewRng(p.ReprSeed, 0, "c10 reprs")
				re := func(e *banderwagon.Element) {
					if rp, ok := RefFromElem(e); ok {
						*e = ElemFromRef(rp, Repr(rr.Intn(int(NumReprs))), rr.Scalar())
					}
				}
				re(&mp.D)
				for i := range mp.IPA.L {
					re(&mp.IPA.L[i])
				}
				for i := range mp.IPA.R {
					re(&mp.IPA.R[i])
				}
			}
			werr = mp.Write(w)
		case "ipa":
			var ip ipa.IPAProof
			if err := ip.Read(bytes.NewReader(data)); err != nil {
				panicV = "harness: honest proof does not parse: " + err.Error()
				return
			}
			werr = ip.Write(w)
		case "uncompressed":
			a, _ := bandersnatch.ReadUncompressedPoint(bytes.NewReader(data))
			_, werr = bandersnatch.WriteUncompressedPoint(w, &a)
		default:
			// ReadPoint/ReadScalar have no Write counterpart taking an io.Writer
			var mp multiproof.MultiProof
			h := c10honest[p.Base%len(c10honest)]
			if err := mp.Read(bytes.NewReader(h)); err != nil {
				panicV = "harness: honest proof does not parse: " + err.Error()
				return
			}
			data, nl = h, 576
			werr = mp.Write(w)
		}
	}()
	res.Nontrivial = w.Fired || (p.ReprSeed != 0 && p.Kind == "multi")
	res.Trace = mix(uint64(w.Calls)*131 + uint64(len(w.Buf)))
	if panicV != nil {
		return mergeViolation(res, "panic", "%s Write panicked: %v", p.Kind, panicV)
	}
	if w.Fired {
		res.fault("write-error-" + p.Writer.Mode)
		if p.Writer.OneShot {
			res.fault("write-error-one-shot")
		}
		if werr == nil {
			return mergeViolation(res, "write-error-ignored", "%s Write returned nil although the writer failed at call %d (%s)", p.Kind, p.Writer.FailCall, p.Writer.Mode)
		}
		res.OK = true
		return res
	}
	if werr != nil {
		return mergeViolation(res, "write-spurious-error", "%s Write returned %v with a healthy writer", p.Kind, werr)
	}
	if !bytes.Equal(w.Buf, data[:nl]) {
		return mergeViolation(res, "write-bytes", "%s Write emitted %d bytes that differ from the canonical encoding (%d bytes)", p.Kind, len(w.Buf), nl)
	}
	res.OK = true
	return res
}

func (*c10) Shrink(plan interface{}) []interface{} {
	p := plan.(*C10Plan)
	var out []interface{}
	add := func(f func(q *C10Plan)) {
		q := *p
		q.Muts = append([]C10Mut{}, p.Muts...)
		if p.Reader.Fault != nil {
			ff := *p.Reader.Fault
			q.Reader.Fault = &ff
		}
		f(&q)
		out = append(out, &q)
	}
	if p.Reader.Fault != nil {
		add(func(q *C10Plan) { q.Reader.Fault = nil })
		if p.Reader.Fault.Offset > 0 {
			add(func(q *C10Plan) { q.Reader.Fault.Offset = 0 })
			add(func(q *C10Plan) { q.Reader.Fault.Offset /= 2 })
		}
		if p.Reader.Fault.WithData {
			add(func(q *C10Plan) { q.Reader.Fault.WithData = false })
		}
	}
	for i := range p.Muts {
		i := i
		add(func(q *C10Plan) { q.Muts = append(q.Muts[:i], q.Muts[i+1:]...) })
	}
	if p.Flip >= 0 {
		add(func(q *C10Plan) { q.Flip = -1 })
	}
	if p.Reader.Chunk != "all" {
		add(func(q *C10Plan) { q.Reader.Chunk = "all" })
	}
	if p.Reader.EOFWithData {
		add(func(q *C10Plan) { q.Reader.EOFWithData = false })
	}
	if p.Len >= 0 {
		add(func(q *C10Plan) { q.Len = -1 })
		nl := natLen(p.Kind)
		if p.Len > nl+1 {
			add(func(q *C10Plan) { q.Len = nl + 1 })
		}
	}
	if p.Base > 0 {
		add(func(q *C10Plan) { q.Base = 0 })
	}
	return out
}
