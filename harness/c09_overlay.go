//go:build verifoverlay

package harness

import (
	"github.com/crate-crypto/go-ipa/bandersnatch"
	"github.com/crate-crypto/go-ipa/bandersnatch/fr"
)

const haveOverlay = true

func innerMSM(p *bandersnatch.PointProj, c int, points []bandersnatch.PointAffine, scalars []fr.Element, mont bool, nbTasks int, split int) {
	digits, small := bandersnatch.VerifPartitionScalars(scalars, uint64(c), mont, nbTasks)
	sp := split == 1
	if split < 0 { // as MultiExp decides
		sp = len(scalars) > 0 && float64(small)/float64(len(scalars)) >= 0.1
	}
	bandersnatch.VerifMsmInner(p, c, points, digits, sp)
}
