package harness

import (
	"fmt"
	"math/big"

	"github.com/crate-crypto/go-ipa/bandersnatch/fr"
	"github.com/crate-crypto/go-ipa/banderwagon"
	"verif/refmodel"
)

// Opening sets: the workload shared by C01, C02 and C03.

type PolySpec struct {
	Kind string `json:"kind"` // zero | const | unit | sparse | max | lowdeg | random
	Seed uint64 `json:"seed"`
}

type OpeningSpec struct {
	Poly  int   `json:"poly"`             // index into Polys
	Z     uint8 `json:"z"`                // evaluation index
	PtrOf int   `json:"ptr_of"`           // -1: own commitment object; j<i: the very same pointer as opening j
	Repr  Repr  `json:"repr"`             // representation of the commitment handed to the prover
	VRepr Repr  `json:"verifier_repr"`    // representation of the commitment handed to the verifier
}

type OpeningSet struct {
	Label string        `json:"label"`
	Polys []PolySpec    `json:"polys"`
	Ops   []OpeningSpec `json:"openings"`
	LamSeed uint64      `json:"lambda_seed"`
}

var polyKinds = []string{"zero", "const", "unit", "sparse", "max", "lowdeg", "random", "random", "random", "u64", "limbedge", "small", "limbedge", "montedge"}
var zPatterns = []string{"allequal", "alldistinct", "twofar", "random", "clustered", "everyindex", "random", "descending"}

func genLabel(r *Rng) string {
	switch r.Intn(40) {
	case 38:
		// longer than any buffer a transcript might pre-allocate
		b := make([]byte, 1100+r.Intn(3000))
		for i := range b {
			b[i] = byte(r.U64())
		}
		return string(b)
	case 39:
		return "a\x00b" + string([]byte{0, 0xff, 0x80, byte(r.U64())})
	}
	switch r.Intn(5) {
	case 0:
		return ""
	case 1:
		return "multiproof"
	case 2:
		return "vt"
	}
	n := 1 + r.Intn(40)
	b := make([]byte, n)
	for i := range b {
		b[i] = byte(32 + r.Intn(95))
	}
	return string(b)
}

// GenOpeningSet draws an opening set of n openings.
func GenOpeningSet(r *Rng, n int, maxPolys int) OpeningSet {
	var s OpeningSet
	s.Label = genLabel(r)
	s.LamSeed = r.U64()
	np := 1 + r.Intn(maxPolys)
	if np > n {
		np = n
	}
	if np < 1 {
		np = 1
	}
	for i := 0; i < np; i++ {
		s.Polys = append(s.Polys, PolySpec{Kind: polyKinds[r.Intn(len(polyKinds))], Seed: r.U64()})
	}
	pat := zPatterns[r.Intn(len(zPatterns))]
	cl := []uint8{uint8(r.Intn(256)), uint8(r.Intn(256)), uint8(r.Intn(256))}
	zeq := uint8(r.Intn(256))
	reprMode := r.Intn(4) // 0 all affine-ish as committed, 1 mixed, 2 flipped, 3 scaled
	shareMode := r.Intn(4)
	for i := 0; i < n; i++ {
		o := OpeningSpec{Poly: r.Intn(np), PtrOf: -1}
		switch pat {
		case "allequal":
			o.Z = zeq
		case "alldistinct", "everyindex":
			o.Z = uint8(i)
		case "descending":
			o.Z = uint8(255 - i%256)
		case "twofar":
			o.Z = []uint8{0, 255}[i%2]
		case "clustered":
			o.Z = cl[r.Intn(3)]
		default:
			o.Z = uint8(r.Intn(256))
		}
		switch reprMode {
		case 1:
			o.Repr, o.VRepr = Repr(r.Intn(int(NumReprs))), Repr(r.Intn(int(NumReprs)))
		case 2:
			o.Repr, o.VRepr = ReprFlipped, ReprBoth
		case 3:
			o.Repr, o.VRepr = ReprScaled, ReprAffine
		}
		// pointer sharing: an earlier opening of the same polynomial
		if i > 0 && (shareMode == 1 && r.Chance(30) || shareMode == 2) {
			for j := i - 1; j >= 0 && j >= i-8; j-- {
				if s.Ops[j].Poly == o.Poly {
					o.PtrOf = j
					if s.Ops[j].PtrOf >= 0 {
						o.PtrOf = s.Ops[j].PtrOf
					}
					break
				}
			}
		}
		s.Ops = append(s.Ops, o)
	}
	return s
}

func genPoly(sp PolySpec) []*big.Int {
	r := NewRng(sp.Seed, 0, "poly:"+sp.Kind)
	f := make([]*big.Int, 256)
	for i := range f {
		f[i] = new(big.Int)
	}
	switch sp.Kind {
	case "zero":
	case "const":
		c := r.Scalar()
		for i := range f {
			f[i] = c
		}
	case "unit":
		f[r.Intn(256)] = big.NewInt(1)
	case "sparse":
		for k := 0; k < 1+r.Intn(5); k++ {
			f[r.Intn(256)] = r.Scalar()
		}
	case "max":
		m := new(big.Int).Sub(refmodel.R, bigOne)
		for i := range f {
			f[i] = m
		}
	case "lowdeg":
		a, b := r.Scalar(), r.Scalar()
		for i := range f {
			v := new(big.Int).Mul(a, big.NewInt(int64(i)))
			v.Add(v, b)
			f[i] = v.Mod(v, refmodel.R)
		}
	case "u64":
		// values that fit one or two 64-bit limbs: the upper limbs are zero
		for i := range f {
			v := new(big.Int).SetUint64(r.U64())
			if r.Chance(30) {
				v.Lsh(v, 64).Or(v, new(big.Int).SetUint64(r.U64()))
			}
			if r.Chance(40) {
				v.SetInt64(0)
			}
			f[i] = v
		}
	case "small":
		for i := range f {
			f[i] = big.NewInt(int64(r.Intn(256)))
		}
	case "limbedge":
		// limb and window boundaries of the scalar representation: all-ones limbs, a set top
		// bit/byte/16-bit window below an empty limb, values just above and below 2^64k
		edge := func() *big.Int {
			k := uint(64 * (1 + r.Intn(3)))
			switch r.Intn(9) {
			case 0:
				return new(big.Int).Sub(new(big.Int).Lsh(bigOne, k), bigOne) // 2^64k - 1
			case 1:
				return new(big.Int).Lsh(bigOne, k) // 2^64k
			case 2:
				return new(big.Int).Sub(new(big.Int).Lsh(bigOne, k+1), bigOne) // 2^(64k+1) - 1
			case 3:
				return new(big.Int).Lsh(big.NewInt(0x81), k-8) // top byte of a limb just above half
			case 4:
				return new(big.Int).Lsh(big.NewInt(0xffff), k-16)
			case 5:
				return new(big.Int).Lsh(big.NewInt(0x8001), k-16)
			case 6:
				v := new(big.Int).Lsh(big.NewInt(0x8000), k-16)
				return v.Or(v, new(big.Int).SetUint64(r.U64()>>20))
			case 7:
				v := new(big.Int).Lsh(bigOne, k+uint(r.Intn(60)))
				return v.Sub(v, big.NewInt(int64(1+r.Intn(3))))
			}
			v := new(big.Int).Lsh(new(big.Int).SetUint64(r.U64()), k-64)
			return v.Or(v, new(big.Int).Sub(new(big.Int).Lsh(bigOne, k-64), bigOne))
		}
		for i := range f {
			if i < 8 || r.Chance(25) {
				f[i] = new(big.Int).Mod(edge(), refmodel.R)
			}
		}
	case "montedge":
		// field elements are stored in Montgomery form (v*2^256 mod r): values whose STORED limbs
		// are small / have empty or all-ones limbs are the boundary class for code that looks at
		// raw limbs (IsUint64, IsZero shortcuts, limb-wise comparisons)
		rinv := new(big.Int).ModInverse(new(big.Int).Lsh(bigOne, 256), refmodel.R)
		stored := func() *big.Int {
			switch r.Intn(5) {
			case 0:
				return big.NewInt(int64(1 + r.Intn(300)))
			case 1:
				return new(big.Int).SetUint64(r.U64())
			case 2:
				return new(big.Int).Lsh(new(big.Int).SetUint64(r.U64()), uint(64*(1+r.Intn(3))))
			case 3:
				return new(big.Int).Sub(new(big.Int).Lsh(bigOne, uint(64*(1+r.Intn(3)))), bigOne)
			}
			return new(big.Int).Lsh(bigOne, uint(r.Intn(250)))
		}
		c := new(big.Int).Mod(new(big.Int).Mul(stored(), rinv), refmodel.R)
		if r.Bool() {
			// constant polynomial: its value at ANY point is this element
			for i := range f {
				f[i] = c
			}
		} else {
			for i := range f {
				if i < 6 || r.Chance(20) {
					f[i] = new(big.Int).Mod(new(big.Int).Mul(stored(), rinv), refmodel.R)
				}
			}
		}
	default:
		for i := range f {
			f[i] = r.Scalar()
		}
	}
	return f
}

// Materialised opening set.
type Openings struct {
	Set    *OpeningSet
	PolyBig [][]*big.Int
	PolyFr  [][]fr.Element
	ComRef  []refmodel.Point // reference value of each polynomial's commitment (read from the library's Commit)
	ComRaw  []*banderwagon.Element // non-nil: the library's Commit returned something that is not a readable point (Z=0); handed on unchanged
	// prover view
	Cs []*banderwagon.Element
	Fs [][]fr.Element
	Zs []uint8
	// verifier view
	VCs []*banderwagon.Element
	Ys  []*fr.Element
	YBig []*big.Int
}

// Materialise builds library inputs. Commitments are the library's own
// Commit(f) (C05 is not claimed here), re-represented limb by limb.
func Materialise(s *OpeningSet) (*Openings, error) {
	cfg := env.Config()
	o := &Openings{Set: s}
	for _, sp := range s.Polys {
		fb := genPoly(sp)
		ff := make([]fr.Element, 256)
		for i := range ff {
			ff[i] = FrFromBig(fb[i])
		}
		c := cfg.Commit(ff)
		rp, ok := RefFromElem(&c)
		var raw *banderwagon.Element
		if !ok {
			// not an infrastructure problem: whatever Commit returns is what an honest caller
			// would pass on; the oracles downstream judge what happens with it
			cc := c
			raw = &cc
			rp = refmodel.Identity()
		}
		o.PolyBig = append(o.PolyBig, fb)
		o.PolyFr = append(o.PolyFr, ff)
		o.ComRef = append(o.ComRef, rp)
		o.ComRaw = append(o.ComRaw, raw)
	}
	lam := NewRng(s.LamSeed, len(s.Ops), "lambda")
	for i, op := range s.Ops {
		if op.Poly < 0 || op.Poly >= len(s.Polys) {
			return nil, fmt.Errorf("bad poly index")
		}
		var cp *banderwagon.Element
		if op.PtrOf >= 0 && op.PtrOf < i && s.Ops[op.PtrOf].Poly == op.Poly {
			cp = o.Cs[op.PtrOf]
		} else if raw := o.ComRaw[op.Poly]; raw != nil {
			e := *raw
			cp = &e
		} else {
			e := ElemFromRef(o.ComRef[op.Poly], op.Repr, lam.Scalar())
			cp = &e
		}
		o.Cs = append(o.Cs, cp)
		// the prover's polynomials: separate slices per opening unless they share the pointer
		o.Fs = append(o.Fs, o.PolyFr[op.Poly])
		o.Zs = append(o.Zs, op.Z)
		ve := ElemFromRef(o.ComRef[op.Poly], op.VRepr, lam.Scalar())
		if raw := o.ComRaw[op.Poly]; raw != nil {
			ve = *raw
		}
		vp := &ve
		// the verifier's caller may hand over ONE object for the same commitment, also when it is
		// opened at different indices
		if s.LamSeed%2 == 0 {
			for j := 0; j < i; j++ {
				if s.Ops[j].Poly == op.Poly {
					vp = o.VCs[j]
					break
				}
			}
		}
		o.VCs = append(o.VCs, vp)
		y := o.PolyFr[op.Poly][op.Z]
		yp := &y
		// a caller may hand over ONE object for equal claimed values
		if s.LamSeed%3 == 0 {
			for j := 0; j < i; j++ {
				if s.Ops[j].Poly == op.Poly && s.Ops[j].Z == op.Z {
					yp = o.Ys[j]
					break
				}
			}
		}
		o.Ys = append(o.Ys, yp)
		o.YBig = append(o.YBig, o.PolyBig[op.Poly][op.Z])
	}
	return o, nil
}

func (s *OpeningSet) shape() string {
	zs := map[uint8]bool{}
	shared := 0
	reprs := map[Repr]bool{}
	for _, o := range s.Ops {
		zs[o.Z] = true
		if o.PtrOf >= 0 {
			shared++
		}
		reprs[o.Repr] = true
	}
	return fmt.Sprintf("n=%s distinctz=%s polys=%d shared=%v reprs=%d label=%d", bucket(len(s.Ops)), bucket(len(zs)), len(s.Polys), shared > 0, len(reprs), len(s.Label))
}

// shrinkSet proposes simpler opening sets.
func shrinkSet(s *OpeningSet) []OpeningSet {
	var out []OpeningSet
	cp := func() OpeningSet {
		q := *s
		q.Polys = append([]PolySpec{}, s.Polys...)
		q.Ops = append([]OpeningSpec{}, s.Ops...)
		return q
	}
	fix := func(q *OpeningSet) {
		for i := range q.Ops {
			if q.Ops[i].PtrOf >= i || (q.Ops[i].PtrOf >= 0 && q.Ops[q.Ops[i].PtrOf].Poly != q.Ops[i].Poly) {
				q.Ops[i].PtrOf = -1
			}
		}
	}
	n := len(s.Ops)
	// halves, then single removals
	if n > 1 {
		q := cp()
		q.Ops = q.Ops[:n/2]
		fix(&q)
		out = append(out, q)
		q2 := cp()
		q2.Ops = append([]OpeningSpec{}, s.Ops[n/2:]...)
		for i := range q2.Ops {
			if q2.Ops[i].PtrOf >= 0 {
				q2.Ops[i].PtrOf -= n / 2
			}
		}
		fix(&q2)
		out = append(out, q2)
	}
	if n > 1 && n <= 24 {
		for k := 0; k < n; k++ {
			q := cp()
			q.Ops = append(q.Ops[:k], q.Ops[k+1:]...)
			for i := range q.Ops {
				if q.Ops[i].PtrOf == k {
					q.Ops[i].PtrOf = -1
				} else if q.Ops[i].PtrOf > k {
					q.Ops[i].PtrOf--
				}
			}
			fix(&q)
			out = append(out, q)
		}
	}
	for i, p := range s.Polys {
		if p.Kind != "zero" && p.Kind != "unit" {
			q := cp()
			q.Polys[i].Kind = "unit"
			out = append(out, q)
		}
	}
	anyRepr, anyShare, anyZ := false, false, false
	for _, o := range s.Ops {
		anyRepr = anyRepr || o.Repr != ReprAffine || o.VRepr != ReprAffine
		anyShare = anyShare || o.PtrOf >= 0
		anyZ = anyZ || o.Z != 0
	}
	if anyRepr {
		q := cp()
		for i := range q.Ops {
			q.Ops[i].Repr, q.Ops[i].VRepr = ReprAffine, ReprAffine
		}
		out = append(out, q)
	}
	if anyShare {
		q := cp()
		for i := range q.Ops {
			q.Ops[i].PtrOf = -1
		}
		out = append(out, q)
	}
	if anyZ && n <= 24 {
		for k := range s.Ops {
			if s.Ops[k].Z != 0 {
				q := cp()
				q.Ops[k].Z = 0
				out = append(out, q)
			}
		}
	}
	if s.Label != "" {
		q := cp()
		q.Label = ""
		out = append(out, q)
	}
	return out
}

func shrinkSim(c SimCfg) []SimCfg {
	var out []SimCfg
	for _, n := range []int{1, 2, c.NumCPU / 2} {
		if n >= 1 && n < c.NumCPU {
			q := c
			q.NumCPU = n
			out = append(out, q)
		}
	}
	if c.Policy != "fifo" && c.Choices == nil {
		q := c
		q.Policy = "fifo"
		out = append(out, q)
	}
	if c.MapShuffle {
		q := c
		q.MapShuffle = false
		out = append(out, q)
	}
	if c.PoolMode != 1 {
		q := c
		q.PoolMode = 1
		out = append(out, q)
	}
	return out
}
