package harness

import (
	"encoding/json"
	"fmt"
	"os"
	"runtime"
	"strings"
	"syscall"
	"testing"
	"time"

	"github.com/crate-crypto/go-ipa/verifsim"
)

// TestWorker is the entry point of a worker process: VERIF_JOB names a job file.
func TestWorker(t *testing.T) {
	path := os.Getenv("VERIF_JOB")
	if path == "" {
		t.Skip("no VERIF_JOB")
	}
	theT = t
	raw, err := os.ReadFile(path)
	if err != nil {
		t.Fatal(err)
	}
	var job Job
	job.OnlyRun = -1
	if err := json.Unmarshal(raw, &job); err != nil {
		t.Fatal(err)
	}
	if err := checkLayout(); err != nil {
		writeJSON(job.Out, map[string]interface{}{"infra": []string{err.Error()}})
		return
	}
	if job.Mode == "mkconfig" {
		if err := WriteConfigCache(job.ConfigCache); err != nil {
			writeJSON(job.Out, map[string]interface{}{"infra": []string{err.Error()}})
			return
		}
		writeJSON(job.Out, map[string]interface{}{"ok": true})
		return
	}
	env.CachePath = job.ConfigCache
	p := registry[job.Prop]
	if p == nil {
		t.Fatalf("unknown property %q", job.Prop)
	}
	env.Tier = job.Tier
	p.Prepare(job.Tier)
	go watchdog(25)
	switch job.Mode {
	case "explore":
		explore(p, &job)
	case "replay":
		replay(p, &job)
	case "tracelist":
		// determinism self-test: per run the trace hash, step count and verdict
		type tl struct {
			Run   int    `json:"run"`
			Trace string `json:"trace"`
			Steps int    `json:"steps"`
			Tasks int    `json:"tasks"`
			Class string `json:"class"`
			Infra string `json:"infra"`
		}
		var outl []tl
		for run := job.Shard; run < job.Runs; run++ {
			res := safeExec(p, p.Gen(job.Seed, run, job.Tier, job.Variant))
			outl = append(outl, tl{run, fmt.Sprintf("%016x", res.Trace), res.Steps, res.Tasks, res.Class, res.Infra})
		}
		writeJSON(job.Out, map[string]interface{}{"list": outl})
	case "cands":
		// shrink candidates of a plan, for the orchestrator-level reducer of
		// process-death violations (race reports, runtime fatal errors)
		plan, err := p.Decode(job.Plan)
		if err != nil {
			writeJSON(job.Out, map[string]interface{}{"infra": err.Error()})
			return
		}
		var cs []json.RawMessage
		for _, c := range p.Shrink(plan) {
			cs = append(cs, mustJSON(c))
		}
		writeJSON(job.Out, map[string]interface{}{"cands": cs})
	case "gen":
		writeJSON(job.Out, map[string]interface{}{"plan": p.Gen(job.Seed, job.OnlyRun, job.Tier, job.Variant)})
	case "shrink":
		shrink(p, &job)
	default:
		t.Fatalf("unknown mode %q", job.Mode)
	}
}

// safeExec: a panic that reaches the worker goroutine comes from harness code
// (library calls made outside the simulator are individually guarded): that is
// an infrastructure problem, never a verdict.
func safeExec(p Property, plan interface{}) (res Result) {
	defer func() {
		if r := recover(); r != nil {
			buf := make([]byte, 8<<10)
			n := runtime.Stack(buf, false)
			res = Result{Infra: fmt.Sprintf("harness panic: %v\n%s", r, buf[:n])}
		}
	}()
	return p.Exec(plan)
}

func isKnown(job *Job, class string) bool {
	for _, k := range job.Known {
		if k == class {
			return true
		}
	}
	return false
}

// watchdog runs on a real goroutine outside every bubble. A simulation whose
// tasks block in something the simulator does not control (a package-level
// channel created outside the bubble, a mutex held across a scheduling point, a
// system call) can never be declared deadlocked by the scheduler: synctest.Wait
// simply does not return. If the scheduler makes no step for stallS seconds AND
// the process burns no CPU in that window, everything is blocked for good:
// print the marker (with all goroutine stacks) and exit with code 67. The
// orchestrator turns that into a "blocked-forever" violation for the announced run.
const blockedMarker = "VERIF-BLOCKED-FOREVER"

func cpuSeconds() float64 {
	var ru syscall.Rusage
	syscall.Getrusage(syscall.RUSAGE_SELF, &ru)
	return float64(ru.Utime.Sec+ru.Stime.Sec) + float64(ru.Utime.Usec+ru.Stime.Usec)/1e6
}

func watchdog(stallS float64) {
	last := verifsim.Progress()
	lastChange := time.Now()
	cpuAt := cpuSeconds()
	for {
		time.Sleep(1 * time.Second)
		now := verifsim.Progress()
		if now != last || !verifsim.Active() {
			last, lastChange, cpuAt = now, time.Now(), cpuSeconds()
			continue
		}
		if time.Since(lastChange).Seconds() < stallS {
			continue
		}
		if cpuSeconds()-cpuAt > 0.02*time.Since(lastChange).Seconds() {
			// somebody is computing (a long task between two scheduling points): not blocked
			lastChange, cpuAt = time.Now(), cpuSeconds()
			continue
		}
		buf := make([]byte, 1<<20)
		n := runtime.Stack(buf, true)
		fmt.Fprintf(os.Stderr, "%s: no scheduler step and no CPU use for %.0f s: tasks are blocked in operations outside the simulator's control\n%s\n", blockedMarker, time.Since(lastChange).Seconds(), trimStacks(string(buf[:n])))
		os.Exit(67)
	}
}

// trimStacks keeps the goroutines that sit in library code.
func trimStacks(s string) string {
	out := ""
	for _, g := range strings.Split(s, "\n\n") {
		if strings.Contains(g, "go-ipa") && !strings.Contains(g, "verifsim.(*sim).park") && len(out) < 6000 {
			out += g + "\n\n"
		}
	}
	if out == "" {
		return s[:minInt(len(s), 6000)]
	}
	return out
}

func explore(p Property, job *Job) {
	sum := &Summary{Prop: job.Prop, Shard: job.Shard, Faults: map[string]int{}, Notes: map[string]int{}, Shapes: map[string]int{},
		SiteOrders: map[string]int{}, siteSets: map[string]map[uint64]struct{}{}, Policies: map[string]int{}, NumCPUs: map[string]int{},
		KnownHits: map[string]int{}, FirstRun: -1}
	keys := map[string]struct{}{}
	start := time.Now()
	nsh := job.NShards
	if nsh < 1 {
		nsh = 1
	}
	verifsim.ProbeReset()
	for run := job.Shard; run < job.Runs; run += nsh {
		if job.OnlyRun >= 0 && run != job.OnlyRun {
			continue
		}
		if run < job.FirstRun {
			continue
		}
		if job.BudgetS > 0 && time.Since(start).Seconds() > job.BudgetS {
			sum.TimedOut = true
			break
		}
		os.WriteFile(job.Out+".current", []byte(fmt.Sprintf(`{"run":%d}`, run)), 0o644)
		plan := p.Gen(job.Seed, run, job.Tier, job.Variant)
		res := safeExec(p, plan)
		if strings.HasPrefix(res.Infra, "SKIP:") && res.Class == "" {
			// part of this run could not be simulated in this (tainted) process: hand the run
			// to a fresh process
			sum.Retired = true
			sum.RetiredAt = run
			break
		}
		if sum.FirstRun < 0 {
			sum.FirstRun = run
		}
		sum.LastRun = run
		sum.Runs++
		sum.Steps += int64(res.Steps)
		sum.Tasks += int64(res.Tasks)
		sum.SimNs += res.SimNs
		if res.MaxParked > sum.MaxParked {
			sum.MaxParked = res.MaxParked
		}
		for k, v := range res.Faults {
			sum.Faults[k] += v
		}
		for k, v := range res.Notes {
			sum.Notes[k] += v
		}
		if res.Shape != "" {
			sum.Shapes[shapeClass(res.Shape)]++
		}
		for _, sc := range p.Sched(plan) {
			sum.Policies[sc.Policy]++
			sum.NumCPUs[fmt.Sprint(sc.NumCPU)]++
		}
		for site, h := range res.SiteSeq {
			set := sum.siteSets[site]
			if set == nil {
				set = map[uint64]struct{}{}
				sum.siteSets[site] = set
			}
			set[h] = struct{}{}
		}
		if res.Nontrivial {
			sum.Nontrivial++
			keys[fmt.Sprintf("%016x|%s", res.Trace, res.Shape)] = struct{}{}
		}
		if len(sum.Samples) < job.Samples && (res.Nontrivial || run%7 == 0) {
			sum.Samples = append(sum.Samples, mustJSON(map[string]interface{}{"run": run, "plan": plan, "steps": res.Steps, "tasks": res.Tasks, "faults_fired": res.Faults, "ok": res.Class == "" && res.Infra == ""}))
		}
		if res.Leaked > 0 && res.Class == "" {
			// goroutines of this run's bubble are still alive: package-level state may now refer to
			// channels of a dead bubble, so this process must not run another simulation
			sum.Notes["goroutines-outliving-the-call"] += res.Leaked
			sum.Retired = true
			sum.RetiredAt = run + nsh
			break
		}
		if res.Infra != "" {
			sum.Infra = append(sum.Infra, fmt.Sprintf("run %d: %s", run, res.Infra))
			if len(sum.Infra) > 3 {
				break
			}
			continue
		}
		if res.Class != "" {
			if isKnown(job, job.Prop+":"+res.Class) {
				sum.KnownHits[res.Class]++
				continue
			}
			// re-execute with schedule recording so that the replay file carries
			// the explicit choice list
			recordChoices = true
			res2 := p.Exec(plan)
			recordChoices = false
			if res2.Class == res.Class {
				for i, sc := range p.Sched(plan) {
					if i < len(res2.ChoicesPer) && sc.Choices == nil {
						sc.Choices = res2.ChoicesPer[i]
					}
				}
			}
			sum.Violations = append(sum.Violations, Failure{Run: run, Class: res.Class, Detail: res.Detail, Plan: mustJSON(plan)})
			// a violated run may leave leaked goroutines behind: retire the process
			break
		}
	}
	sum.WallS = time.Since(start).Seconds()
	sum.Keys = sortedKeys(keys)
	for site, set := range sum.siteSets {
		sum.SiteOrders[site] = len(set)
	}
	snap := verifsim.ProbeSnapshot()
	for i, c := range snap {
		if c > 0 {
			sum.ProbesHit = append(sum.ProbesHit, i)
		}
	}
	writeJSON(job.Out, sum)
}

// shapeClass coarsens a shape key for the histogram in the evidence.
func shapeClass(s string) string {
	if len(s) > 48 {
		return s[:48]
	}
	return s
}

type ReplayOut struct {
	OK     bool            `json:"ok"`
	Class  string          `json:"class"`
	Detail string          `json:"detail"`
	Infra  string          `json:"infra"`
	Steps  int             `json:"steps"`
	Trace  string          `json:"trace"`
	Plan   json.RawMessage `json:"plan"`
}

func replay(p Property, job *Job) {
	plan, err := p.Decode(job.Plan)
	if err != nil {
		writeJSON(job.Out, ReplayOut{Infra: "cannot decode plan: " + err.Error()})
		return
	}
	res := p.Exec(plan)
	writeJSON(job.Out, ReplayOut{OK: res.Class == "" && res.Infra == "", Class: res.Class, Detail: res.Detail, Infra: res.Infra, Steps: res.Steps, Trace: fmt.Sprintf("%016x", res.Trace), Plan: mustJSON(plan)})
}

// shrink minimises a failing plan while the same violation class persists:
// first the workload and fault list (property-specific candidates), then the
// schedule (shortest choice prefix, then zeroing the remaining choices).
func shrink(p Property, job *Job) {
	plan, err := p.Decode(job.Plan)
	if err != nil {
		writeJSON(job.Out, ReplayOut{Infra: "cannot decode plan: " + err.Error()})
		return
	}
	deadline := time.Now().Add(time.Duration(job.ShrinkS * float64(time.Second)))
	want := job.WantClass
	clone := func(x interface{}) interface{} {
		c, err := p.Decode(mustJSON(x))
		if err != nil {
			panic(err)
		}
		return c
	}
	fails := func(x interface{}) bool {
		r := p.Exec(clone(x))
		return r.Class == want
	}
	if !fails(plan) {
		writeJSON(job.Out, ReplayOut{Infra: "plan does not reproduce class " + want, Plan: mustJSON(plan)})
		return
	}
	// Phase 1: workload / faults, under the recorded schedule if there is one.
	progress := true
	for progress && time.Now().Before(deadline) {
		progress = false
		for _, cand := range p.Shrink(clone(plan)) {
			if !time.Now().Before(deadline) {
				break
			}
			if fails(cand) {
				plan = cand
				progress = true
				break
			}
		}
	}
	// Phase 2: schedule.
	nsched := len(p.Sched(plan))
	for i := 0; i < nsched && time.Now().Before(deadline); i++ {
		get := func(x interface{}) *SimCfg { return p.Sched(x)[i] }
		if get(plan).Choices == nil {
			recordChoices = true
			r := p.Exec(clone(plan))
			recordChoices = false
			if r.Class != want || i >= len(r.ChoicesPer) {
				continue
			}
			c := clone(plan)
			get(c).Choices = r.ChoicesPer[i]
			if get(c).Choices == nil {
				get(c).Choices = []int32{}
			}
			if !fails(c) {
				continue
			}
			plan = c
		}
		try := func(ch []int32) bool {
			c := clone(plan)
			get(c).Choices = ch
			if fails(c) {
				plan = c
				return true
			}
			return false
		}
		cur := append([]int32{}, get(plan).Choices...)
		// strip trailing zeros (exhausted list = choice 0)
		for len(cur) > 0 && cur[len(cur)-1] == 0 {
			cur = cur[:len(cur)-1]
		}
		if try(append([]int32{}, cur...)) {
			cur = append([]int32{}, get(plan).Choices...)
		}
		if try([]int32{}) {
			continue
		}
		// shortest failing prefix (tail = FIFO)
		lo, hi := 0, len(cur)
		for lo < hi && time.Now().Before(deadline) {
			mid := (lo + hi) / 2
			if try(append([]int32{}, cur[:mid]...)) {
				hi = mid
			} else {
				lo = mid + 1
			}
		}
		cur = append([]int32{}, get(plan).Choices...)
		// zero blocks of the remaining non-zero choices (ddmin-style)
		for blk := len(cur) / 2; blk >= 1 && time.Now().Before(deadline); blk /= 2 {
			for off := 0; off < len(cur) && time.Now().Before(deadline); off += blk {
				nz := false
				c2 := append([]int32{}, cur...)
				for j := off; j < off+blk && j < len(c2); j++ {
					if c2[j] != 0 {
						nz = true
						c2[j] = 0
					}
				}
				if nz && try(c2) {
					cur = c2
				}
			}
			if blk == 1 {
				break
			}
		}
	}
	r := p.Exec(clone(plan))
	writeJSON(job.Out, ReplayOut{OK: false, Class: r.Class, Detail: r.Detail, Infra: r.Infra, Steps: r.Steps, Trace: fmt.Sprintf("%016x", r.Trace), Plan: mustJSON(plan)})
}
