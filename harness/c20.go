package harness

import (
	"encoding/json"
	"fmt"
	"sort"
	"sync"

	"github.com/crate-crypto/go-ipa/common/parallel"
	"github.com/crate-crypto/go-ipa/verifsim"
)

// C20 — the parallel range splitter covers every index exactly once and joins
// before returning, for every (n, m), CPU count and schedule.

type C20Plan struct {
	N        int    `json:"n"`
	M        int    `json:"m"` // 0 = default worker limit (simulated CPU count)
	Delays   int    `json:"max_delays"`
	DelaySeed uint64 `json:"delay_seed"`
	Nested   int    `json:"nested,omitempty"` // >0: every work invocation calls Execute(Nested, ...) itself (re-entrant use)
	Sim      SimCfg `json:"sim"`
}

type c20 struct{}

func init() { register("C20", c20{}) }

var siteC20Work = verifsim.HarnessSite("harness:C20 work-function delay")

func (c20) Prepare(string) {}

func (c20) Gen(seed uint64, run int, tier, variant string) interface{} {
	r := NewRng(seed, run, "C20")
	var p C20Plan
	if tier == "thorough" && variant == "grid" {
		// the whole grid n in 0..2048, m in 1..300, each cell once
		p.N = run / 300
		p.M = run%300 + 1
	} else {
		switch r.Intn(10) {
		case 0:
			p.N = r.Intn(4)
		case 1:
			p.N = r.Intn(41)
		case 2, 3:
			p.N = r.Intn(300)
		default:
			p.N = r.Intn(2049)
		}
		switch r.Intn(10) {
		case 0:
			p.M = 0
		case 1:
			p.M = 1
		case 2:
			p.M = p.N + r.Pick([]int{-1, 0, 1})
		case 3:
			// n mod m in {0,1,m-1}
			p.M = 1 + r.Intn(300)
			k := r.Intn(7)
			p.N = k*p.M + r.Pick([]int{0, 1, p.M - 1})
		default:
			p.M = 1 + r.Intn(300)
		}
		if p.M < 0 {
			p.M = 0
		}
		if p.N > 2048 {
			p.N = 2048
		}
		if p.N < 0 {
			p.N = 0
		}
	}
	p.Delays = r.Intn(4)
	if r.Chance(12) && p.N <= 64 {
		p.Nested = 1 + r.Intn(9)
	}
	p.DelaySeed = r.U64()
	near := 0
	if p.M == 0 {
		near = p.N
	}
	p.Sim = GenSimCfg(r, near, 300)
	return &p
}

func (c20) Decode(raw json.RawMessage) (interface{}, error) {
	var p C20Plan
	err := json.Unmarshal(raw, &p)
	return &p, err
}

func (c20) Sched(plan interface{}) []*SimCfg { return []*SimCfg{&plan.(*C20Plan).Sim} }

type c20obs struct {
	innerBad          string
	ranges            [][2]int
	started, finished int
	atReturnStarted   int
	atReturnFinished  int
}

func (c20) Exec(plan interface{}) Result {
	p := plan.(*C20Plan)
	var res Result
	res.Shape = fmt.Sprintf("n=%d m=%d cpu=%d", p.N, p.M, p.Sim.NumCPU)
	obs, out := Simulate(p.Sim, 4*p.N+16, func() *c20obs {
		o := &c20obs{}
		var mu sync.Mutex // never held across a scheduling point
		work := func(start, end int) {
			mu.Lock()
			o.started++
			o.ranges = append(o.ranges, [2]int{start, end})
			mu.Unlock()
			d := 0
			if p.Delays > 0 {
				d = int(mix(p.DelaySeed^uint64(start)*0x9e3779b97f4a7c15) % uint64(p.Delays+1))
			}
			for i := 0; i < d; i++ {
				verifsim.Yield(siteC20Work) // adversarial delay inside the work function
			}
			if p.Nested > 0 {
				// re-entrant use: the inner call must cover [0,Nested) exactly once and join
				cover := make([]int, p.Nested)
				var imu sync.Mutex
				running := 0
				parallel.Execute(p.Nested, func(s, e int) {
					imu.Lock()
					running++
					imu.Unlock()
					verifsim.Yield(siteC20Work)
					imu.Lock()
					for i := s; i < e && i >= 0 && i < len(cover); i++ {
						cover[i]++
					}
					if s >= e || s < 0 || e > p.Nested {
						cover[0] += 1000
					}
					running--
					imu.Unlock()
				}, 1+int(mix(p.DelaySeed^uint64(end))%5))
				imu.Lock()
				bad := running != 0
				for _, c := range cover {
					if c != 1 {
						bad = true
					}
				}
				imu.Unlock()
				if bad {
					mu.Lock()
					o.innerBad = fmt.Sprintf("nested Execute(%d) inside work(%d,%d): coverage %v, still running %d", p.Nested, start, end, cover, running)
					mu.Unlock()
				}
			}
			mu.Lock()
			o.finished++
			mu.Unlock()
		}
		if p.M == 0 {
			parallel.Execute(p.N, work)
		} else {
			parallel.Execute(p.N, work, p.M)
		}
		// the instant Execute returns, before this task yields again
		mu.Lock()
		o.atReturnStarted, o.atReturnFinished = o.started, o.finished
		mu.Unlock()
		return o
	})
	if p.Delays > 0 {
		res.fault("work-delay")
	}
	res.absorb(out)
	if res.Class != "" || res.Infra != "" {
		return res
	}
	o := obs
	if o.innerBad != "" {
		return mergeViolation(res, "nested-bad", "%s", o.innerBad)
	}
	if p.Nested > 0 {
		res.note("re-entrant")
	}
	m := p.M
	if m == 0 {
		m = p.Sim.NumCPU
	}
	limit := p.N
	if m < limit {
		limit = m
	}
	if o.started > o.atReturnStarted {
		return mergeViolation(res, "early-return", "Execute(%d, m=%d) returned before %d of its %d invocations had even started", p.N, p.M, o.started-o.atReturnStarted, o.started)
	}
	if o.atReturnFinished != o.atReturnStarted || o.finished != o.started {
		return mergeViolation(res, "early-return", "Execute(%d, m=%d) returned while %d of %d started invocations were still running", p.N, p.M, o.atReturnStarted-o.atReturnFinished, o.atReturnStarted)
	}
	if o.started > limit {
		return mergeViolation(res, "too-many-invocations", "Execute(%d, m=%d): %d invocations > min(n,m)=%d", p.N, p.M, o.started, limit)
	}
	rs := append([][2]int{}, o.ranges...)
	sort.Slice(rs, func(i, j int) bool { return rs[i][0] < rs[j][0] || (rs[i][0] == rs[j][0] && rs[i][1] < rs[j][1]) })
	next := 0
	for _, r := range rs {
		if r[0] >= r[1] {
			return mergeViolation(res, "empty-range", "Execute(%d, m=%d): empty or inverted range [%d,%d)", p.N, p.M, r[0], r[1])
		}
		if r[0] < 0 || r[1] > p.N {
			return mergeViolation(res, "out-of-bounds", "Execute(%d, m=%d): range [%d,%d) outside [0,%d)", p.N, p.M, r[0], r[1], p.N)
		}
		if r[0] != next {
			return mergeViolation(res, "bad-partition", "Execute(%d, m=%d): ranges %v leave a gap or overlap at %d", p.N, p.M, clip(rs), next)
		}
		next = r[1]
	}
	if next != p.N {
		return mergeViolation(res, "bad-partition", "Execute(%d, m=%d): union of ranges ends at %d, ranges %v", p.N, p.M, next, clip(rs))
	}
	if len(rs) >= 2 {
		res.note("multi-range")
	}
	if p.N == 0 {
		res.note("n=0")
	}
	if p.N%max1(m) != 0 && p.N > m {
		res.note("remainder-spread")
	}
	if p.N < m {
		res.note("n<m")
	}
	res.OK = true
	return res
}

func max1(x int) int {
	if x < 1 {
		return 1
	}
	return x
}

func clip(rs [][2]int) [][2]int {
	if len(rs) > 12 {
		return rs[:12]
	}
	return rs
}

func (c20) Shrink(plan interface{}) []interface{} {
	p := plan.(*C20Plan)
	var out []interface{}
	add := func(f func(q *C20Plan)) {
		q := *p
		q.Sim.Choices = append([]int32(nil), p.Sim.Choices...)
		if p.Sim.Choices == nil {
			q.Sim.Choices = nil
		}
		f(&q)
		out = append(out, &q)
	}
	if p.Nested > 0 {
		add(func(q *C20Plan) { q.Nested = 0 })
	}
	if p.Delays > 0 {
		add(func(q *C20Plan) { q.Delays = 0 })
		add(func(q *C20Plan) { q.Delays-- })
	}
	for _, n := range []int{0, 1, 2, 3, p.N / 2, p.N - 1} {
		if n >= 0 && n < p.N {
			n := n
			add(func(q *C20Plan) { q.N = n })
		}
	}
	for _, m := range []int{1, 2, 3, p.M / 2, p.M - 1} {
		if m >= 1 && m < p.M {
			m := m
			add(func(q *C20Plan) { q.M = m })
		}
	}
	for _, c := range []int{1, 2, p.Sim.NumCPU / 2, p.Sim.NumCPU - 1} {
		if c >= 1 && c < p.Sim.NumCPU {
			c := c
			add(func(q *C20Plan) { q.Sim.NumCPU = c })
		}
	}
	if p.Sim.Policy != "fifo" && p.Sim.Choices == nil {
		add(func(q *C20Plan) { q.Sim.Policy = "fifo" })
	}
	if p.Sim.MapShuffle {
		add(func(q *C20Plan) { q.Sim.MapShuffle = false })
	}
	return out
}
