package harness

import (
	"bytes"
	"encoding/json"
	"fmt"
	"math/big"

	multiproof "github.com/crate-crypto/go-ipa"
	"github.com/crate-crypto/go-ipa/bandersnatch/fr"
	"github.com/crate-crypto/go-ipa/banderwagon"
	"github.com/crate-crypto/go-ipa/common"
	"github.com/crate-crypto/go-ipa/ipa"
	"verif/refmodel"
)

// C02 — verifier soundness, as fault tolerance of the prover->verifier message:
// the library verifier agrees with the reference verifier on every delivered
// message, and a message that is not value-identical to a sent one is rejected.

type C02Fault struct {
	Kind string `json:"kind"`
	Pos  int    `json:"pos,omitempty"`
	Pos2 int    `json:"pos2,omitempty"`
	Bit  int    `json:"bit,omitempty"`
	Seed uint64 `json:"seed,omitempty"`
	Splice bool `json:"splice,omitempty"` // replacement taken from the second in-flight proof instead of a random valid value
}

type C02Plan struct {
	Mode     string     `json:"mode,omitempty"` // "" = multiproof, "ipa" = ipa.CheckIPAProof directly
	RefProver bool      `json:"reference_prover,omitempty"` // the honest proof is produced by the reference prover, not by the library
	IPAPoly  PolySpec   `json:"ipa_poly,omitempty"`
	IPAEval  string     `json:"ipa_eval,omitempty"`
	IPASeed  uint64     `json:"ipa_seed,omitempty"`
	Set      OpeningSet `json:"set"`
	Set2Seed uint64     `json:"set2_seed"`
	Fault    C02Fault   `json:"fault"`
	Verifier SimCfg     `json:"verifier_sim"`
	Wire     ReaderSpec `json:"wire"`
}

type c02 struct{}

func init() { register("C02", c02{}) }

func (c02) Prepare(string) { env.Config(); refmodel.CRS(); env.Pool() }

var c02Kinds = []string{
	"none",
	"flip-proof-byte", "flip-proof-byte", "flip-proof-byte", "replace-proof-byte",
	"replace-D", "replace-L", "replace-R", "replace-a", "splice-ipa",
	"C-other", "C-other", "z-other", "z-other", "y-other", "y-other",
	"swap", "dup", "drop", "swap-y", "swap-z", "swap-C",
	"label",
	"shape-L", "shape-R", "shape-LR", "zero-openings", "len-ys", "len-zs", "len-ys-longer", "len-zs-longer", "len-cs-longer",
	"repr", "repr",
	"noise", "identity-proof",
	// an uninitialised (all-zero, Z=0) element is not a group element: a proof or statement
	// containing one must never be accepted, whatever the final scalar is
	"zero-D", "zero-L", "zero-R", "zero-C",
	// a Byzantine prover: follows the protocol on the true polynomials but CLAIMS a different
	// statement (absorbs the claimed value into its transcript), so the proof is consistent
	// with the transcript of the false statement - a stronger adversary than corrupting an
	// honest message afterwards
	"lying-prover-y", "lying-prover-y", "lying-prover-z", "lying-prover-C",
}

func (c02) Gen(seed uint64, run int, tier, variant string) interface{} {
	r := NewRng(seed, run, "C02")
	var p C02Plan
	n := 1
	switch r.Intn(6) {
	case 0:
		n = 1
	case 1, 2, 3:
		n = 1 + r.Intn(12)
	default:
		n = 1 + r.Intn(64)
	}
	p.Set = GenOpeningSet(r, n, 5)
	p.Set2Seed = r.U64()
	p.Verifier = GenSimCfg(r, n, 128)
	p.Wire = genReader(r)
	f := C02Fault{Kind: c02Kinds[r.Intn(len(c02Kinds))], Seed: r.U64(), Bit: r.Intn(8), Splice: r.Chance(40)}
	switch f.Kind {
	case "flip-proof-byte", "replace-proof-byte":
		f.Pos = r.Intn(576)
	case "replace-L", "replace-R", "zero-L", "zero-R":
		f.Pos = r.Intn(8)
	case "zero-C":
		f.Pos = r.Intn(n)
	case "C-other", "z-other", "y-other", "dup", "drop", "lying-prover-y", "lying-prover-z", "lying-prover-C":
		f.Pos = r.Intn(n)
	case "swap", "swap-y", "swap-z", "swap-C":
		f.Pos, f.Pos2 = r.Intn(n), r.Intn(n)
	case "shape-L", "shape-R", "shape-LR":
		f.Pos = r.Pick([]int{0, 1, 7, 9, 2, 16})
	}
	p.Fault = f
	p.RefProver = r.Chance(15)
	if r.Chance(14) {
		p.Mode = "ipa"
		p.RefProver = r.Chance(60)
		p.IPAPoly = PolySpec{Kind: polyKinds[r.Intn(len(polyKinds))], Seed: r.U64()}
		p.IPAEval = []string{"in", "out", "edge", "edge"}[r.Intn(4)]
		p.IPASeed = r.U64()
		p.Fault.Kind = c02IPAKinds[r.Intn(len(c02IPAKinds))]
		p.Fault.Pos = r.Intn(8)
		p.Set = GenOpeningSet(r, 1, 1)
	}
	return &p
}

var c02IPAKinds = []string{"none", "none", "result-other", "result-other", "result-lookalike", "point-other", "point-lookalike", "replace-L", "replace-R", "replace-a", "shape-L", "shape-R", "repr", "zero-L", "zero-R", "commitment-other", "L-equals-R", "swap-LR"}

func (c02) Decode(raw json.RawMessage) (interface{}, error) {
	var p C02Plan
	err := json.Unmarshal(raw, &p)
	return &p, err
}

func (c02) Sched(plan interface{}) []*SimCfg { return []*SimCfg{&plan.(*C02Plan).Verifier} }

// message is what travels from the prover to the verifier.
type message struct {
	label string
	Cs    []refmodel.Point
	reprs []Repr
	zs    []uint8
	ys    []*big.Int
	proof []byte // 576 bytes when the shape is regular
	// irregular shapes cannot be expressed in the byte layout: object form
	shaped bool
	D      refmodel.Point
	L, R   []refmodel.Point
	A      *big.Int
	dropYs, dropZs int // shape faults on the statement: ys/zs shortened by this many entries
	extraYs, extraZs, extraCs int // ... or lengthened
	zeroField      int  // object form: index of the proof element replaced by the zero value (0=D, 1..8=L, 9..16=R), -1 none
	zeroC          int  // index of the commitment replaced by the zero value, -1 none
	zeroA          bool // final scalar forced to 0 as well
}

// lyingProve is the reference prover run by a Byzantine prover node: quotients, D, E and the
// IPA are computed from the TRUE polynomials, but the transcript absorbs the CLAIMED statement.
func lyingProve(label string, Cs []refmodel.Point, zs []uint8, ys []*big.Int, trueFs [][]*big.Int, trueZs []uint8) []byte {
	tr := refmodel.NewTranscript(label)
	tr.DomainSep([]byte("multiproof"))
	n := len(trueFs)
	for i := 0; i < n; i++ {
		tr.AppendPoint(Cs[i], []byte("C"))
		tr.AppendScalar(big.NewInt(int64(zs[i])), []byte("z"))
		tr.AppendScalar(ys[i], []byte("y"))
	}
	R := refmodel.R
	r := tr.ChallengeScalar([]byte("r"))
	g := make([]*big.Int, 256)
	for j := range g {
		g[j] = new(big.Int)
	}
	pw := big.NewInt(1)
	pows := make([]*big.Int, n)
	for i := 0; i < n; i++ {
		pows[i] = new(big.Int).Set(pw)
		q := refmodel.DivideOnDomain(trueZs[i], trueFs[i])
		for j := range g {
			g[j].Add(g[j], new(big.Int).Mul(pw, q[j]))
			g[j].Mod(g[j], R)
		}
		pw = new(big.Int).Mod(new(big.Int).Mul(pw, r), R)
	}
	D := refmodel.Commit(g)
	tr.AppendPoint(D, []byte("D"))
	t := tr.ChallengeScalar([]byte("t"))
	h := make([]*big.Int, 256)
	for j := range h {
		h[j] = new(big.Int)
	}
	for i := 0; i < n; i++ {
		den := new(big.Int).Sub(t, big.NewInt(int64(trueZs[i])))
		den.Mod(den, R)
		inv := new(big.Int).ModInverse(den, R)
		if inv == nil {
			inv = new(big.Int)
		}
		c := new(big.Int).Mod(new(big.Int).Mul(pows[i], inv), R)
		for j := range h {
			h[j].Add(h[j], new(big.Int).Mul(c, trueFs[i][j]))
			h[j].Mod(h[j], R)
		}
	}
	E := refmodel.Commit(h)
	tr.AppendPoint(E, []byte("E"))
	hg := make([]*big.Int, 256)
	for j := range hg {
		hg[j] = new(big.Int).Mod(new(big.Int).Sub(h[j], g[j]), R)
	}
	ip := refmodel.IPAProve(tr, E.Sub(D), hg, t)
	return refmodel.MultiProof{D: D, IPA: ip}.Bytes()
}

func honestProve(o *Openings, label string) ([]byte, error) {
	tr := common.NewTranscript(label)
	proof, err := multiproof.CreateMultiProof(tr, env.Config(), o.Cs, o.Fs, o.Zs)
	if err != nil {
		return nil, err
	}
	var buf bytes.Buffer
	if err := proof.Write(&buf); err != nil {
		return nil, err
	}
	return buf.Bytes(), nil
}

func (m *message) clone() *message {
	c := *m
	c.Cs = append([]refmodel.Point{}, m.Cs...)
	c.reprs = append([]Repr{}, m.reprs...)
	c.zs = append([]uint8{}, m.zs...)
	c.ys = append([]*big.Int{}, m.ys...)
	c.proof = append([]byte{}, m.proof...)
	return &c
}

// identical: value-identical as (label, openings, proof).
func identical(a, b *message) bool {
	if a.label != b.label || len(a.Cs) != len(b.Cs) || len(a.zs) != len(b.zs) || len(a.ys) != len(b.ys) || a.shaped != b.shaped {
		return false
	}
	if a.extraYs != b.extraYs || a.extraZs != b.extraZs || a.extraCs != b.extraCs {
		return false
	}
	if a.dropYs != b.dropYs || a.dropZs != b.dropZs || a.zeroField != b.zeroField || a.zeroC != b.zeroC || a.zeroA != b.zeroA {
		return false
	}
	for i := range a.Cs {
		if !a.Cs[i].Equal(b.Cs[i]) || a.zs[i] != b.zs[i] || a.ys[i].Cmp(b.ys[i]) != 0 {
			return false
		}
	}
	return bytes.Equal(a.proof, b.proof)
}

func randomPointBytes(r *Rng) []byte {
	_, poolP := env.Pool()
	e := poolP[r.Intn(poolSize)].Encode()
	return e[:]
}

// c02ipa: the IPA verifier on its own, against the reference IPA verifier.
func c02ipa(p *C02Plan) Result {
	var res Result
	f := p.Fault
	res.Shape = fmt.Sprintf("ipa fault=%s poly=%s eval=%s refprover=%v vcpu=%d", f.Kind, p.IPAPoly.Kind, p.IPAEval, p.RefProver, p.Verifier.NumCPU)
	cfg := env.Config()
	fb := genPoly(p.IPAPoly)
	ff := make([]fr.Element, 256)
	for i := range ff {
		ff[i] = FrFromBig(fb[i])
	}
	com := cfg.Commit(ff)
	comRef, ok := RefFromElem(&com)
	if !ok {
		res.Infra = "Commit returned Z=0"
		return res
	}
	z := (&C03Plan{IPAEval: p.IPAEval, IPASeed: p.IPASeed}).evalPoint()
	yTrue := refmodel.InnerProd(fb, refmodel.BVector(z))
	var rproof refmodel.IPAProof
	if p.RefProver {
		rproof = refmodel.IPAProve(refmodel.NewTranscript("ipa-c02"), comRef, fb, z)
	} else {
		lp, err := ipa.CreateIPAProof(common.NewTranscript("ipa-c02"), cfg, com, ff, FrFromBig(z))
		if err != nil {
			res.Infra = "honest IPA prover failed: " + err.Error()
			return res
		}
		var b bytes.Buffer
		lp.Write(&b)
		rproof, err = refmodel.ParseIPAProof(b.Bytes())
		if err != nil {
			res.Infra = "reference cannot parse the library's IPA proof: " + err.Error()
			return res
		}
	}
	r := NewRng(f.Seed, 0, "ipafault:"+f.Kind)
	_, poolP := env.Pool()
	dC, dz, dy := comRef, new(big.Int).Set(z), new(big.Int).Set(yTrue)
	dL := append([]refmodel.Point{}, rproof.L...)
	dR := append([]refmodel.Point{}, rproof.R...)
	dA := new(big.Int).Set(rproof.A)
	zeroL, zeroR := -1, -1
	shape := false
	low := new(big.Int).And(z, big.NewInt(255))
	switch f.Kind {
	case "none", "repr":
	case "result-other":
		dy = new(big.Int).Mod(new(big.Int).Add(dy, big.NewInt(int64(1+r.Intn(5)))), refmodel.R)
	case "result-lookalike":
		// the claimed value of the DOMAIN element whose index equals the low bits of the point
		dy = new(big.Int).Set(fb[low.Int64()])
	case "point-other":
		dz = r.Scalar()
	case "point-lookalike":
		dz = new(big.Int).Set(low)
	case "replace-L":
		dL[f.Pos%8] = poolP[r.Intn(poolSize)]
	case "replace-R":
		dR[f.Pos%8] = poolP[r.Intn(poolSize)]
	case "replace-a":
		dA = r.Scalar()
	case "L-equals-R":
		dL[f.Pos%8] = dR[f.Pos%8]
	case "swap-LR":
		dL[f.Pos%8], dR[f.Pos%8] = dR[f.Pos%8], dL[f.Pos%8]
	case "shape-L":
		dL = dL[:f.Pos%8]
		shape = true
	case "shape-R":
		dR = append(dR, dR[0])
		shape = true
	case "zero-L":
		zeroL = f.Pos % 8
	case "zero-R":
		zeroR = f.Pos % 8
	case "commitment-other":
		dC = poolP[r.Intn(poolSize)]
	}
	if f.Kind != "none" {
		res.fault("ipa:" + f.Kind)
	}
	same := dC.Equal(comRef) && dz.Cmp(z) == 0 && dy.Cmp(yTrue) == 0 && dA.Cmp(rproof.A) == 0 && len(dL) == 8 && len(dR) == 8 && zeroL < 0 && zeroR < 0
	if same {
		for i := 0; i < 8; i++ {
			same = same && dL[i].Equal(rproof.L[i]) && dR[i].Equal(rproof.R[i])
		}
	}
	refOK := false
	var refErr error
	if zeroL < 0 && zeroR < 0 {
		refOK, refErr = refmodel.IPAVerify(refmodel.NewTranscript("ipa-c02"), dC, refmodel.IPAProof{L: dL, R: dR, A: dA}, dz, dy)
	}
	lam := NewRng(f.Seed, 2, "ipalambda")
	repr := ReprAffine
	if f.Kind == "repr" {
		repr = Repr(1 + lam.Intn(int(NumReprs)-1))
	}
	ce := ElemFromRef(dC, repr, lam.Scalar())
	mk := func(v []refmodel.Point) []banderwagon.Element {
		o := make([]banderwagon.Element, len(v))
		for i := range v {
			rp := ReprAffine
			if f.Kind == "repr" {
				rp = Repr(lam.Intn(int(NumReprs)))
			}
			o[i] = ElemFromRef(v[i], rp, lam.Scalar())
		}
		return o
	}
	lp := ipa.IPAProof{L: mk(dL), R: mk(dR), A_scalar: FrFromBig(dA)}
	if zeroL >= 0 {
		lp.L[zeroL] = banderwagon.Element{}
	}
	if zeroR >= 0 {
		lp.R[zeroR] = banderwagon.Element{}
	}
	vo, out := Simulate(p.Verifier, 8000, func() (vo verifyOut) {
		vo.ok, vo.err = ipa.CheckIPAProof(common.NewTranscript("ipa-c02"), cfg, ce, lp, FrFromBig(dz), FrFromBig(dy))
		return
	})
	res.absorb(out)
	if res.Class != "" || res.Infra != "" {
		return res
	}
	libOK := vo.err == nil && vo.ok
	if vo.err != nil && vo.ok {
		return mergeViolation(res, "true-with-error", "CheckIPAProof returned (true, %v)", vo.err)
	}
	if zeroL >= 0 || zeroR >= 0 {
		if vo.ok {
			return mergeViolation(res, "accepted-non-element", "CheckIPAProof accepted a proof containing the all-zero value in place of a group element (%s)", f.Kind)
		}
		res.OK = true
		return res
	}
	if shape {
		if vo.err == nil || vo.ok {
			return mergeViolation(res, "shape-not-rejected", "CheckIPAProof with |L|=%d |R|=%d returned (%v, %v), want (false, error)", len(dL), len(dR), vo.ok, vo.err)
		}
		res.OK = true
		return res
	}
	if libOK != refOK {
		return mergeViolation(res, "verifier-disagrees", "CheckIPAProof(point=%s, fault %s, proof by %s): library verdict %v (err=%v) but the reference IPA verifier says %v (err=%v)", dz.String(), f.Kind, map[bool]string{true: "reference prover", false: "library prover"}[p.RefProver], libOK, vo.err, refOK, refErr)
	}
	if !same && libOK && !(f.Kind == "repr") {
		// degenerate: the zero polynomial's proof is valid for every claim 0
		allZero := true
		for _, v := range fb {
			if v.Sign() != 0 {
				allZero = false
			}
		}
		if !allZero {
			return mergeViolation(res, "accepted-modified-message", "CheckIPAProof accepted a statement/proof that differs from the honest one (fault %s)", f.Kind)
		}
	}
	if same && !libOK {
		return mergeViolation(res, "rejected-honest-message", "CheckIPAProof rejected an honest proof (by the %s) at point %s: ok=%v err=%v", map[bool]string{true: "reference prover", false: "library prover"}[p.RefProver], z.String(), vo.ok, vo.err)
	}
	res.OK = true
	return res
}

func (c02) Exec(plan interface{}) Result {
	p := plan.(*C02Plan)
	if p.Mode == "ipa" {
		return c02ipa(p)
	}
	var res Result
	f := p.Fault
	res.Shape = fmt.Sprintf("fault=%s splice=%v %s vcpu=%d", f.Kind, f.Splice, p.Set.shape(), p.Verifier.NumCPU)
	o, err := Materialise(&p.Set)
	if err != nil {
		res.Infra = err.Error()
		return res
	}
	n := len(o.Cs)
	var pb []byte
	if p.RefProver {
		var refCs []refmodel.Point
		var refFs [][]*big.Int
		for _, op := range p.Set.Ops {
			refCs = append(refCs, o.ComRef[op.Poly])
			refFs = append(refFs, o.PolyBig[op.Poly])
		}
		rp, rerr := refmodel.MultiProve(refmodel.NewTranscript(p.Set.Label), refCs, refFs, o.Zs)
		if rerr != nil {
			res.Infra = "reference prover failed: " + rerr.Error()
			return res
		}
		pb = rp.Bytes()
		res.note("honest-proof-by-reference-prover")
	} else {
		pb, err = honestProve(o, p.Set.Label)
		if err != nil {
			res.Infra = "honest prover failed: " + err.Error() // C01's subject, not C02's
			return res
		}
	}
	sent := &message{label: p.Set.Label, zs: append([]uint8{}, o.Zs...), proof: pb, zeroField: -1, zeroC: -1}
	for i, op := range p.Set.Ops {
		sent.Cs = append(sent.Cs, o.ComRef[op.Poly])
		sent.reprs = append(sent.reprs, op.VRepr)
		sent.ys = append(sent.ys, o.YBig[i])
	}
	// the second in-flight message (source of splices)
	var pb2 []byte
	needSecond := f.Splice || f.Kind == "splice-ipa"
	if needSecond {
		r2 := NewRng(p.Set2Seed, 0, "set2")
		s2 := GenOpeningSet(r2, 1+r2.Intn(4), 3)
		o2, err := Materialise(&s2)
		if err == nil {
			pb2, err = honestProve(o2, s2.Label)
		}
		if err != nil {
			res.Infra = "second honest prover failed: " + err.Error()
			return res
		}
	}
	r := NewRng(f.Seed, n, "fault:"+f.Kind)
	d := sent.clone()
	field := func(k int) []byte { return d.proof[32*k : 32*k+32] }
	replaceField := func(k int) {
		if f.Splice && pb2 != nil {
			copy(field(k), pb2[32*k:32*k+32])
		} else if k == 17 {
			copy(field(k), le32(r.Scalar()))
		} else {
			copy(field(k), randomPointBytes(r))
		}
	}
	switch f.Kind {
	case "none":
	case "flip-proof-byte":
		d.proof[f.Pos%576] ^= 1 << uint(f.Bit&7)
	case "replace-proof-byte":
		d.proof[f.Pos%576] = byte(r.U64())
	case "replace-D":
		replaceField(0)
	case "replace-L":
		replaceField(1 + f.Pos%8)
	case "replace-R":
		replaceField(9 + f.Pos%8)
	case "replace-a":
		replaceField(17)
	case "splice-ipa":
		copy(d.proof[32:], pb2[32:])
	case "C-other":
		i := f.Pos % n
		if r.Bool() && n > 1 {
			d.Cs[i] = d.Cs[(i+1+r.Intn(n-1))%n]
		} else {
			_, poolP := env.Pool()
			d.Cs[i] = poolP[r.Intn(poolSize)]
		}
	case "z-other":
		i := f.Pos % n
		d.zs[i] = d.zs[i] + uint8(1+r.Intn(255))
	case "y-other":
		i := f.Pos % n
		switch r.Intn(3) {
		case 0:
			d.ys[i] = new(big.Int).Mod(new(big.Int).Add(d.ys[i], bigOne), refmodel.R)
		case 1:
			d.ys[i] = r.Scalar()
		default:
			d.ys[i] = new(big.Int).Mod(new(big.Int).Neg(d.ys[i]), refmodel.R)
		}
	case "swap":
		i, j := f.Pos%n, f.Pos2%n
		d.Cs[i], d.Cs[j] = d.Cs[j], d.Cs[i]
		d.zs[i], d.zs[j] = d.zs[j], d.zs[i]
		d.ys[i], d.ys[j] = d.ys[j], d.ys[i]
		d.reprs[i], d.reprs[j] = d.reprs[j], d.reprs[i]
	case "lying-prover-y", "lying-prover-z", "lying-prover-C":
		i := f.Pos % n
		// prefer an opening that repeats an earlier (commitment, index) pair
		for k := n - 1; k > 0; k-- {
			twin := false
			for j := 0; j < k; j++ {
				if p.Set.Ops[j].Poly == p.Set.Ops[k].Poly && p.Set.Ops[j].Z == p.Set.Ops[k].Z {
					twin = true
				}
			}
			if twin && r.Chance(70) {
				i = k
				break
			}
		}
		var trueFs [][]*big.Int
		for _, op := range p.Set.Ops {
			trueFs = append(trueFs, o.PolyBig[op.Poly])
		}
		trueZs := append([]uint8{}, o.Zs...)
		switch f.Kind {
		case "lying-prover-y":
			d.ys[i] = new(big.Int).Mod(new(big.Int).Add(d.ys[i], big.NewInt(int64(1+r.Intn(1000)))), refmodel.R)
		case "lying-prover-z":
			d.zs[i] = d.zs[i] + uint8(1+r.Intn(255))
		default:
			_, poolP := env.Pool()
			d.Cs[i] = poolP[r.Intn(poolSize)]
		}
		d.proof = lyingProve(d.label, d.Cs, d.zs, d.ys, trueFs, trueZs)
		f.Bit |= 4 // the verifier's caller hands over one object for equal commitments
	case "swap-y":
		// only the claimed values change places (interesting when both openings share z or C)
		i, j := f.Pos%n, f.Pos2%n
		d.ys[i], d.ys[j] = d.ys[j], d.ys[i]
	case "swap-z":
		i, j := f.Pos%n, f.Pos2%n
		d.zs[i], d.zs[j] = d.zs[j], d.zs[i]
	case "swap-C":
		i, j := f.Pos%n, f.Pos2%n
		d.Cs[i], d.Cs[j] = d.Cs[j], d.Cs[i]
		d.reprs[i], d.reprs[j] = d.reprs[j], d.reprs[i]
	case "dup":
		i := f.Pos % n
		d.Cs = append(d.Cs, d.Cs[i])
		d.zs = append(d.zs, d.zs[i])
		d.ys = append(d.ys, d.ys[i])
		d.reprs = append(d.reprs, d.reprs[i])
	case "drop":
		i := f.Pos % n
		d.Cs = append(d.Cs[:i], d.Cs[i+1:]...)
		d.zs = append(d.zs[:i], d.zs[i+1:]...)
		d.ys = append(d.ys[:i], d.ys[i+1:]...)
		d.reprs = append(d.reprs[:i], d.reprs[i+1:]...)
	case "label":
		switch r.Intn(3) {
		case 0:
			d.label = d.label + "x"
		case 1:
			d.label = "other"
		default:
			if len(d.label) > 0 {
				d.label = d.label[:len(d.label)-1]
			} else {
				d.label = " "
			}
		}
	case "zero-openings":
		d.Cs, d.zs, d.ys, d.reprs = nil, nil, nil, nil
	case "len-ys":
		d.dropYs = 1
	case "len-zs":
		d.dropZs = 1
	case "len-ys-longer":
		d.extraYs = 1
	case "len-zs-longer":
		d.extraZs = 1
	case "len-cs-longer":
		d.extraCs = 1
	case "repr":
		for i := range d.reprs {
			d.reprs[i] = Repr(r.Intn(int(NumReprs)))
		}
	case "identity-proof":
		id := refmodel.Identity().Encode()
		for k := 0; k < 17; k++ {
			copy(field(k), id[:])
		}
		copy(field(17), le32(new(big.Int)))
	case "zero-D", "zero-L", "zero-R", "zero-C":
		rp, err := refmodel.ParseMultiProof(d.proof)
		if err != nil {
			res.Infra = "reference cannot parse the honest proof: " + err.Error()
			return res
		}
		d.shaped = true
		d.D, d.L, d.R, d.A = rp.D, rp.IPA.L, rp.IPA.R, rp.IPA.A
		switch f.Kind {
		case "zero-D":
			d.zeroField = 0
		case "zero-L":
			d.zeroField = 1 + f.Pos%8
		case "zero-R":
			d.zeroField = 9 + f.Pos%8
		case "zero-C":
			d.zeroC = f.Pos % n
		}
		d.zeroA = f.Bit%2 == 0
		if d.zeroA {
			d.A = new(big.Int)
		}
	case "noise":
		for k := 0; k < 17; k++ {
			copy(field(k), randomPointBytes(r))
		}
		copy(field(17), le32(r.Scalar()))
	case "shape-L", "shape-R", "shape-LR":
		rp, err := refmodel.ParseMultiProof(d.proof)
		if err != nil {
			res.Infra = "reference cannot parse the honest proof: " + err.Error()
			return res
		}
		d.shaped = true
		d.D, d.L, d.R, d.A = rp.D, rp.IPA.L, rp.IPA.R, rp.IPA.A
		resize := func(v []refmodel.Point, k int) []refmodel.Point {
			out := append([]refmodel.Point{}, v...)
			for len(out) < k {
				out = append(out, v[len(out)%len(v)])
			}
			return out[:k]
		}
		k := f.Pos
		if k == 8 {
			k = 7
		}
		if f.Kind != "shape-R" {
			d.L = resize(d.L, k)
		}
		if f.Kind != "shape-L" {
			d.R = resize(d.R, k)
		}
	default:
		res.Infra = "unknown fault kind " + f.Kind
		return res
	}
	if f.Kind != "none" {
		res.fault(f.Kind)
		if f.Splice && pb2 != nil && (f.Kind == "replace-D" || f.Kind == "replace-L" || f.Kind == "replace-R" || f.Kind == "replace-a") {
			res.fault("spliced-from-second-proof")
		}
	}
	same := identical(sent, d)
	zeroFault := d.zeroField >= 0 || d.zeroC >= 0
	shapeFault := (d.shaped && !zeroFault) || d.dropYs > 0 || d.dropZs > 0 || len(d.Cs) == 0 || d.extraYs+d.extraZs+d.extraCs > 0

	// ---- reference verdict on the delivered message
	refOK := false
	var refErr error
	parseOK := true
	var rproof refmodel.MultiProof
	if d.shaped {
		rproof = refmodel.MultiProof{D: d.D, IPA: refmodel.IPAProof{L: d.L, R: d.R, A: d.A}}
	} else {
		rproof, refErr = refmodel.ParseMultiProof(d.proof)
		parseOK = refErr == nil
	}
	if zeroFault {
		parseOK = false // not a group element: no reference verdict other than "reject"
	}
	if parseOK {
		rys := d.ys[:len(d.ys)-minInt(d.dropYs, len(d.ys))]
		rzs := d.zs[:len(d.zs)-minInt(d.dropZs, len(d.zs))]
		rcs := d.Cs
		for k := 0; k < d.extraYs; k++ {
			rys = append(append([]*big.Int{}, rys...), rys[0])
		}
		for k := 0; k < d.extraZs; k++ {
			rzs = append(append([]uint8{}, rzs...), rzs[0])
		}
		for k := 0; k < d.extraCs; k++ {
			rcs = append(append([]refmodel.Point{}, rcs...), rcs[0])
		}
		refOK, refErr = refmodel.MultiVerify(refmodel.NewTranscript(d.label), rproof, rcs, rys, rzs)
	}

	// ---- the library's verdict, verifier node under the scheduler
	lam := NewRng(f.Seed, 1, "vlambda")
	Cs := make([]*banderwagon.Element, len(d.Cs))
	for i := range Cs {
		e := ElemFromRef(d.Cs[i], d.reprs[i], lam.Scalar())
		Cs[i] = &e
	}
	ys := make([]*fr.Element, 0, len(d.ys))
	for _, y := range d.ys[:len(d.ys)-minInt(d.dropYs, len(d.ys))] {
		e := FrFromBig(y)
		ys = append(ys, &e)
	}
	zs := append([]uint8{}, d.zs[:len(d.zs)-minInt(d.dropZs, len(d.zs))]...)
	for k := 0; k < d.extraYs && len(ys) > 0; k++ {
		ys = append(ys, ys[0])
	}
	for k := 0; k < d.extraZs && len(zs) > 0; k++ {
		zs = append(zs, zs[0])
	}
	for k := 0; k < d.extraCs && len(Cs) > 0; k++ {
		Cs = append(Cs, Cs[0])
	}
	// the verifier's caller may hand over ONE object for equal commitments / equal claimed values
	if f.Bit >= 4 {
		for i := range ys {
			for j := 0; j < i; j++ {
				if i < len(d.ys) && j < len(d.ys) && d.ys[i].Cmp(d.ys[j]) == 0 {
					ys[i] = ys[j]
					break
				}
			}
		}
		for i := range Cs {
			for j := 0; j < i; j++ {
				if i < len(d.Cs) && j < len(d.Cs) && d.Cs[i].Equal(d.Cs[j]) && d.reprs[i] == d.reprs[j] {
					Cs[i] = Cs[j]
					break
				}
			}
		}
		res.note("verifier-shares-commitment-pointers")
	}
	var vo verifyOut
	var out SimOut
	if d.shaped {
		mk := func(v []refmodel.Point) []banderwagon.Element {
			o := make([]banderwagon.Element, len(v))
			for i := range v {
				o[i] = ElemFromRef(v[i], ReprAffine, nil)
			}
			return o
		}
		proof := multiproof.MultiProof{D: ElemFromRef(d.D, ReprAffine, nil), IPA: ipa.IPAProof{L: mk(d.L), R: mk(d.R), A_scalar: FrFromBig(d.A)}}
		switch {
		case d.zeroField == 0:
			proof.D = banderwagon.Element{}
		case d.zeroField >= 1 && d.zeroField <= 8:
			proof.IPA.L[d.zeroField-1] = banderwagon.Element{}
		case d.zeroField >= 9:
			proof.IPA.R[d.zeroField-9] = banderwagon.Element{}
		}
		if d.zeroC >= 0 {
			Cs[d.zeroC] = &banderwagon.Element{}
		}
		vo, out = Simulate(p.Verifier, 8000, func() (vo verifyOut) {
			tr := common.NewTranscript(d.label)
			vo.ok, vo.err = multiproof.CheckMultiProof(tr, env.Config(), &proof, Cs, ys, zs)
			return
		})
	} else {
		vo, out = simVerify(p.Verifier, d.label, d.proof, p.Wire, Cs, ys, zs)
	}
	res.absorb(out)
	if res.Class != "" || res.Infra != "" {
		if res.Class == "panic" {
			res.Detail = fmt.Sprintf("verifier panicked on a message with fault %s: %s", f.Kind, res.Detail)
		}
		return res
	}
	if zeroFault {
		if vo.ok {
			return mergeViolation(res, "accepted-non-element", "fault %s (a=0: %v): a message containing the all-zero (uninitialised, Z=0) value in place of a group element was accepted", f.Kind, d.zeroA)
		}
		res.OK = true
		return res
	}
	if !d.shaped && (vo.readErr == nil) != parseOK {
		return mergeViolation(res, "read-disagrees", "fault %s: MultiProof.Read err=%v but reference parse ok=%v", f.Kind, vo.readErr, parseOK)
	}
	libOK := vo.readErr == nil && vo.err == nil && vo.ok
	if vo.readErr == nil && vo.err != nil && vo.ok {
		return mergeViolation(res, "true-with-error", "CheckMultiProof returned (true, %v)", vo.err)
	}
	if shapeFault {
		if vo.err == nil || vo.ok {
			return mergeViolation(res, "shape-not-rejected", "fault %s (|L|=%d |R|=%d openings=%d ys=%d zs=%d): CheckMultiProof returned (%v, %v), want (false, error)", f.Kind, len(d.L), len(d.R), len(Cs), len(ys), len(zs), vo.ok, vo.err)
		}
		if refOK || refErr == nil {
			res.Infra = "reference verifier did not report a shape error"
			return res
		}
		res.OK = true
		return res
	}
	if libOK != refOK {
		return mergeViolation(res, "verifier-disagrees", "fault %s on %d openings: library verdict %v (err=%v) but reference verifier says %v (err=%v)", f.Kind, n, libOK, vo.err, refOK, refErr)
	}
	// Degenerate honest traffic: if every opened polynomial is the zero polynomial,
	// every commitment is the identity, D, L_j, R_j are the identity and a = 0, so the
	// verification equation holds for *any* all-zero statement whatever the
	// challenges are. Accepting such a message is what the protocol (and the
	// reference verifier) prescribes; the cross-check below would be a false alarm.
	allZero := true
	for i := range sent.Cs {
		if sent.ys[i].Sign() != 0 || !sent.Cs[i].Equal(refmodel.Identity()) {
			allZero = false
		}
	}
	if allZero {
		res.note("degenerate-all-zero-traffic")
	}
	// A delivered statement that is TRUE (every opening names the commitment of one of the
	// prover's polynomials and that polynomial's actual value at the claimed index) may
	// legitimately verify with a proof whose transcript matches it - e.g. a Byzantine prover
	// "lying" about the index of a constant or zero polynomial says something true. The
	// cross-check is about FALSE statements; agreement with the reference verifier is required
	// in every case.
	stmtTrue := len(d.Cs) > 0 && d.dropYs == 0 && d.dropZs == 0
	for i := 0; stmtTrue && i < len(d.Cs); i++ {
		ok := false
		for pi := range p.Set.Polys {
			if d.Cs[i].Equal(o.ComRef[pi]) && o.PolyBig[pi][d.zs[i]].Cmp(d.ys[i]) == 0 {
				ok = true
				break
			}
		}
		stmtTrue = ok
	}
	if stmtTrue && !same {
		res.note("modified-but-true-statement")
	}
	if !same && libOK && !allZero && !stmtTrue {
		return mergeViolation(res, "accepted-modified-message", "fault %s on %d openings: a message that is not value-identical to the sent one was accepted", f.Kind, n)
	}
	if same && !libOK {
		return mergeViolation(res, "rejected-honest-message", "fault %s left the message value-identical (%d openings) but it was rejected: ok=%v err=%v readErr=%v", f.Kind, n, vo.ok, vo.err, vo.readErr)
	}
	if same && f.Kind != "none" && f.Kind != "repr" {
		res.note("fault-was-identity:" + f.Kind)
	}
	res.OK = true
	return res
}

func minInt(a, b int) int {
	if a < b {
		return a
	}
	return b
}

func (c02) Shrink(plan interface{}) []interface{} {
	p := plan.(*C02Plan)
	var out []interface{}
	for _, s := range shrinkSet(&p.Set) {
		q := *p
		q.Set = s
		out = append(out, &q)
	}
	if p.Fault.Pos > 0 {
		q := *p
		q.Fault.Pos = 0
		out = append(out, &q)
	}
	if p.Fault.Splice {
		q := *p
		q.Fault.Splice = false
		out = append(out, &q)
	}
	for _, sc := range shrinkSim(p.Verifier) {
		q := *p
		q.Verifier = sc
		out = append(out, &q)
	}
	if p.Wire.Chunk != "all" || p.Wire.EOFWithData {
		q := *p
		q.Wire = ReaderSpec{Chunk: "all"}
		out = append(out, &q)
	}
	return out
}
