//go:build !verifoverlay

package harness

import (
	"github.com/crate-crypto/go-ipa/bandersnatch"
	"github.com/crate-crypto/go-ipa/bandersnatch/fr"
)

const haveOverlay = false

func innerMSM(p *bandersnatch.PointProj, c int, points []bandersnatch.PointAffine, scalars []fr.Element, mont bool, nbTasks int, split int) {
	panic("internal MSM entry points are not available in this build")
}
