// Package harness drives the instrumented copy of go-ipa under the seeded
// scheduler (verifsim), the simulated reader/writer (iosim.go) and the
// prover->verifier wire, and judges every run with oracles built on the
// independent reference model (verif/refmodel). One OS process = one worker;
// see /verif/DESIGN.md.
package harness

import (
	"encoding/json"
	"fmt"
	"math/big"
	"os"
	"runtime"
	"runtime/debug"
	"sort"
	"strings"
	"sync"
	"testing"
	"testing/synctest"
	"time"
	"unsafe"

	"github.com/crate-crypto/go-ipa/bandersnatch"
	"github.com/crate-crypto/go-ipa/bandersnatch/fp"
	"github.com/crate-crypto/go-ipa/bandersnatch/fr"
	"github.com/crate-crypto/go-ipa/banderwagon"
	"github.com/crate-crypto/go-ipa/ipa"
	"github.com/crate-crypto/go-ipa/verifsim"
	"verif/refmodel"
)

// ---------------------------------------------------------------------------
// PRNG: every choice of a run derives from (seed, run, purpose).

type Rng struct{ s uint64 }

func mix(x uint64) uint64 {
	x += 0x9e3779b97f4a7c15
	x = (x ^ (x >> 30)) * 0xbf58476d1ce4e5b9
	x = (x ^ (x >> 27)) * 0x94d049bb133111eb
	return x ^ (x >> 31)
}

func NewRng(seed uint64, run int, purpose string) *Rng {
	h := mix(seed ^ 0x243f6a8885a308d3)
	h = mix(h ^ uint64(run)*0x9e3779b97f4a7c15)
	for i := 0; i < len(purpose); i++ {
		h = mix(h ^ uint64(purpose[i]))
	}
	return &Rng{h}
}

func (r *Rng) U64() uint64 { r.s += 0x9e3779b97f4a7c15; return mix(r.s) }
func (r *Rng) Intn(n int) int {
	if n <= 0 {
		return 0
	}
	return int(r.U64() % uint64(n))
}
func (r *Rng) Bool() bool         { return r.U64()&1 == 1 }
func (r *Rng) Chance(p int) bool  { return r.Intn(100) < p } // p percent
func (r *Rng) Pick(xs []int) int  { return xs[r.Intn(len(xs))] }
func (r *Rng) Range(lo, hi int) int { return lo + r.Intn(hi-lo+1) }

// LogUniform returns a value in [1,max] whose logarithm is roughly uniform.
func (r *Rng) LogUniform(max int) int {
	if max <= 1 {
		return 1
	}
	bits := 0
	for (1 << bits) <= max {
		bits++
	}
	b := r.Intn(bits) + 1
	v := int(r.U64() % (1 << uint(b)))
	if v < 1 {
		v = 1
	}
	if v > max {
		v = max
	}
	return v
}

// Scalar returns a field element of the scalar field as an integer in [0,r).
func (r *Rng) Scalar() *big.Int {
	var b [32]byte
	for i := 0; i < 4; i++ {
		v := r.U64()
		for j := 0; j < 8; j++ {
			b[i*8+j] = byte(v >> (8 * j))
		}
	}
	x := new(big.Int).SetBytes(b[:])
	return x.Mod(x, refmodel.R)
}

// ---------------------------------------------------------------------------
// Scheduler configuration of one simulated run (part of every plan).

type SimCfg struct {
	NumCPU     int     `json:"numcpu"`
	GoMaxProcs int     `json:"gomaxprocs,omitempty"` // simulated runtime.GOMAXPROCS(0); 0 = same as numcpu
	Policy     string  `json:"policy"`
	Param      int     `json:"param,omitempty"`
	Seed       uint64  `json:"sched_seed"`
	PoolBuggy  bool    `json:"pool_buggify,omitempty"`
	PoolMode   int     `json:"pool_mode,omitempty"` // 0 mixed, 1 never recycle, 2 always recycle
	MapShuffle bool    `json:"map_shuffle,omitempty"`
	Choices    []int32 `json:"choices,omitempty"` // explicit schedule (replay files); nil = policy+seed
	MaxSteps   int     `json:"max_steps,omitempty"`
}

var cpuChoices = []int{1, 2, 3, 4, 5, 7, 8, 15, 16, 17, 31, 32, 33, 63, 64, 128, 255, 256, 300}

func policyID(name string) int {
	for i, n := range verifsim.PolicyNames {
		if n == name {
			return i
		}
	}
	return verifsim.PolRandom
}

// GenSimCfg draws a scheduler configuration swarm-style. near biases the CPU
// count to values adjacent to the workload size (worker-partition boundaries).
func GenSimCfg(r *Rng, near int, maxCPU int) SimCfg {
	var c SimCfg
	switch {
	case near > 0 && r.Chance(30):
		c.NumCPU = near + r.Pick([]int{-1, 0, 1})
	case near > 1 && r.Chance(15):
		c.NumCPU = near/2 + r.Pick([]int{-1, 0, 1})
	case r.Chance(50):
		c.NumCPU = r.Pick([]int{1, 2, 3, 4, 5, 7, 8, 15, 16, 17})
	default:
		c.NumCPU = r.Pick(cpuChoices)
	}
	if c.NumCPU < 1 {
		c.NumCPU = 1
	}
	if maxCPU > 0 && c.NumCPU > maxCPU {
		c.NumCPU = 1 + r.Intn(maxCPU)
	}
	pols := []string{"random", "random", "random", "pct", "pct", "sticky", "sticky", "fifo", "lifo", "starve", "mainlast", "roundrobin"}
	c.Policy = pols[r.Intn(len(pols))]
	switch c.Policy {
	case "sticky":
		c.Param = 2 + r.Intn(30)
	case "pct":
		c.Param = 1 + r.Intn(6)
	case "starve":
		c.Param = r.Intn(8)
	}
	if r.Chance(25) {
		// GOMAXPROCS need not equal the CPU count (containers, GOMAXPROCS env)
		c.GoMaxProcs = 1 + r.Intn(c.NumCPU+4)
	}
	c.Seed = r.U64()
	// the real sync.Pool (per-P caches, emptied by the GC) is a source of nondeterminism the
	// simulator does not control: the simulated pool is always on, in one of three moods
	c.PoolBuggy = true
	c.PoolMode = r.Pick([]int{0, 0, 1, 2})
	c.MapShuffle = r.Bool()
	return c
}

func (c SimCfg) toSim(record bool, est int) verifsim.Config {
	return verifsim.Config{
		NumCPU: c.NumCPU, GoMaxProcs: c.GoMaxProcs, Policy: policyID(c.Policy), Param: c.Param, Seed: c.Seed,
		Choices: c.Choices, MaxSteps: c.MaxSteps, PoolBuggy: c.PoolBuggy, PoolMode: c.PoolMode, MapShuffle: c.MapShuffle,
		Record: record, EstSteps: est,
	}
}

// ---------------------------------------------------------------------------
// Running a body as the root task of a simulation inside a synctest bubble.

var theT *testing.T

// bubbleTainted: a simulation of this process ended with goroutines still alive (a library
// that keeps workers across calls). They live in a dead synctest bubble; package-level state
// may refer to its channels, and touching those from another bubble is a fatal runtime error.
// No further simulation may start in this process: the worker retires and is respawned.
var bubbleTainted bool

type SimOut struct {
	Skipped   bool // not executed: the process is tainted (see bubbleTainted)
	Rep       *verifsim.Report
	Completed bool   // the root task returned
	EndPanic  string // end-of-bubble panic (leaked blocked goroutines after a deadlock)
}

// Simulate runs body as task 0 under the scheduler and returns its result. The
// result travels over a channel created inside the bubble (a real
// happens-before edge, also for -race builds).
var recordChoices bool

func Simulate[T any](c SimCfg, est int, body func() T) (res T, out SimOut) {
	record := recordChoices
	if bubbleTainted {
		out.Skipped = true
		return
	}
	defer func() {
		if r := recover(); r != nil {
			out.EndPanic = fmt.Sprint(r)
		}
		if (out.Rep != nil && out.Rep.Leaked > 0) || strings.Contains(out.EndPanic, "blocked goroutines remain") {
			bubbleTainted = true
		}
	}()
	synctest.Test(theT, func(t *testing.T) {
		ch := make(chan T, 1)
		out.Rep = verifsim.Run(c.toSim(record, est), synctest.Wait, func() {
			ch <- body()
		})
		select {
		case res = <-ch:
			out.Completed = true
		default:
		}
	})
	return
}

// ---------------------------------------------------------------------------
// Verdicts.

type Result struct {
	OK     bool   `json:"ok"`
	Class  string `json:"class,omitempty"`  // violation class (stable across shrinking)
	Detail string `json:"detail,omitempty"` // human-readable description
	Infra  string `json:"infra,omitempty"`  // not a verdict: infrastructure problem

	// reach
	Steps      int               `json:"steps,omitempty"`
	Tasks      int               `json:"tasks,omitempty"`
	MaxParked  int               `json:"max_parked,omitempty"`
	Branching  int               `json:"branching,omitempty"`
	Trace      uint64            `json:"trace,omitempty"`
	Shape      string            `json:"shape,omitempty"` // workload/config shape key
	Nontrivial bool              `json:"nontrivial,omitempty"`
	Faults     map[string]int    `json:"faults,omitempty"` // fault kind -> times it actually fired
	Notes      map[string]int    `json:"notes,omitempty"`  // rare-condition probes hit by this run
	SiteSeq    map[string]uint64 `json:"-"`
	ChoicesPer [][]int32         `json:"-"` // recorded schedule of each simulation of the run, in order
	SimNs      int64             `json:"-"`
	Leaked     int               `json:"-"` // goroutines still alive (blocked) after the call under test returned
}

func (r *Result) fault(k string) {
	if r.Faults == nil {
		r.Faults = map[string]int{}
	}
	r.Faults[k]++
}
func (r *Result) note(k string) {
	if r.Notes == nil {
		r.Notes = map[string]int{}
	}
	r.Notes[k]++
}

func violation(class, format string, a ...interface{}) Result {
	return Result{Class: class, Detail: fmt.Sprintf(format, a...)}
}

// absorb copies the scheduler report into the result and turns scheduler-level
// findings (deadlock, task panic, step cap) into verdicts.
func (r *Result) absorb(out SimOut) {
	if out.Skipped {
		if r.Infra == "" && r.Class == "" {
			r.Infra = "SKIP: an earlier simulation of this process left goroutines behind"
		}
		return
	}
	rep := out.Rep
	if rep == nil {
		if r.Infra == "" {
			r.Infra = "no scheduler report: " + out.EndPanic
		}
		return
	}
	r.Steps += rep.Steps
	r.Tasks += rep.Tasks
	if rep.MaxParked > r.MaxParked {
		r.MaxParked = rep.MaxParked
	}
	r.Branching += rep.Branching
	r.Trace = mix(r.Trace ^ rep.TraceHash)
	r.SimNs += rep.SimTimeNs
	if rep.Branching > 0 {
		r.Nontrivial = true
	}
	if r.SiteSeq == nil {
		r.SiteSeq = map[string]uint64{}
	}
	for k, v := range rep.SiteSeq {
		r.SiteSeq[k] = mix(r.SiteSeq[k] ^ v)
	}
	r.ChoicesPer = append(r.ChoicesPer, rep.Choices)
	if rep.PoolRecycled > 0 {
		r.fault("pool-recycled-dirty")
		r.Faults["pool-recycled-dirty"] += rep.PoolRecycled - 1
	}
	if rep.PoolDropped > 0 {
		r.fault("pool-dropped")
		r.Faults["pool-dropped"] += rep.PoolDropped - 1
	}
	if rep.MapShuffles > 0 {
		r.fault("map-order-shuffled")
		r.Faults["map-order-shuffled"] += rep.MapShuffles - 1
	}
	if rep.TooMany {
		r.Infra = "simulator task table exhausted"
		return
	}
	if r.Class != "" {
		return
	}
	if rep.Leaked > 0 {
		r.Leaked += rep.Leaked
	}
	if len(rep.Panics) > 0 && (strings.Contains(rep.Panics[0].Value, "synctest") || strings.Contains(rep.Panics[0].Value, "bubble")) {
		// a goroutine that outlived an earlier simulation (or was started outside of one) touched
		// a channel of this bubble: a limit of the simulator, not a verdict about the library
		r.Infra = "simulator limitation (goroutine outside the synctest bubble): " + rep.Panics[0].Value
		return
	}
	if len(rep.Panics) > 0 {
		p := rep.Panics[0]
		*r = mergeViolation(*r, "panic", "task %d panicked (last sync site %s): %s\n%s", p.Task, p.Site, p.Value, firstLines(p.Stack, 14))
		return
	}
	if rep.Deadlock {
		*r = mergeViolation(*r, "deadlock", "no task runnable but %d blocked forever: %s", len(rep.Blocked), fmtBlocked(rep.Blocked))
		return
	}
	if rep.StepCap {
		*r = mergeViolation(*r, "stepcap", "step cap reached (livelock?): %s", fmtBlocked(rep.Blocked))
		return
	}
	if !out.Completed {
		*r = mergeViolation(*r, "incomplete", "root task did not return and no deadlock was detected: %s", out.EndPanic)
	}
}

func mergeViolation(r Result, class, format string, a ...interface{}) Result {
	r.OK = false
	r.Class = class
	r.Detail = fmt.Sprintf(format, a...)
	return r
}

func fmtBlocked(b []verifsim.BlockedInfo) string {
	s := ""
	for i, x := range b {
		if i >= 6 {
			s += fmt.Sprintf(" ... (+%d)", len(b)-i)
			break
		}
		s += fmt.Sprintf("[task %d %s at %s] ", x.Task, x.What, x.Site)
	}
	return s
}

func firstLines(s string, n int) string {
	out := ""
	for i := 0; i < len(s) && n > 0; i++ {
		out += string(s[i])
		if s[i] == '\n' {
			n--
		}
	}
	return out
}

// ---------------------------------------------------------------------------
// Conversions between library values and the reference model, done with
// math/big and raw limbs so that the oracle does not lean on the library's own
// conversion routines.

func FrFromBig(x *big.Int) fr.Element { return fr.Element(refmodel.MontLimbs(x, refmodel.R)) }
func FrToBig(e fr.Element) *big.Int   { return refmodel.FromMontLimbs([4]uint64(e), refmodel.R) }
func FpFromBig(x *big.Int) fp.Element { return fp.Element(refmodel.MontLimbs(x, refmodel.P)) }
func FpToBig(e fp.Element) *big.Int   { return refmodel.FromMontLimbs([4]uint64(e), refmodel.P) }

// FrRegular returns an fr.Element whose limbs hold x in regular (non-Montgomery)
// form, as MultiExp expects with ScalarsMont=false.
func FrRegular(x *big.Int) fr.Element {
	var e fr.Element
	w := new(big.Int).Set(x)
	m := new(big.Int).SetUint64(^uint64(0))
	for i := 0; i < 4; i++ {
		e[i] = new(big.Int).And(w, m).Uint64()
		w.Rsh(w, 64)
	}
	return e
}

type elemLayout struct{ X, Y, Z fp.Element }

var layoutChecked bool

// checkLayout verifies once that banderwagon.Element is {X,Y,Z fp.Element}, so
// that representations can be read and built limb by limb.
func checkLayout() error {
	if layoutChecked {
		return nil
	}
	if unsafe.Sizeof(banderwagon.Element{}) != unsafe.Sizeof(elemLayout{}) {
		return fmt.Errorf("banderwagon.Element has an unexpected size")
	}
	g := refmodel.Generator()
	x, y := g.Affine()
	var buf [64]byte
	x.FillBytes(buf[:32])
	y.FillBytes(buf[32:])
	var e banderwagon.Element
	if err := e.SetBytesUncompressed(buf[:], true); err != nil {
		return err
	}
	l := (*elemLayout)(unsafe.Pointer(&e))
	if FpToBig(l.X).Cmp(x) != 0 || FpToBig(l.Y).Cmp(y) != 0 || FpToBig(l.Z).Cmp(big.NewInt(1)) != 0 {
		return fmt.Errorf("banderwagon.Element layout is not {X,Y,Z}")
	}
	layoutChecked = true
	return nil
}

// Repr selects one of the equivalent representations of a group element.
type Repr int

const (
	ReprAffine  Repr = iota // (x, y, 1)
	ReprScaled              // (l*x, l*y, l)
	ReprFlipped             // (-x, -y, 1): the other member of the Banderwagon class
	ReprBoth                // (-l*x, -l*y, l)
	NumReprs
)

// ElemFromRef builds a library element from a reference point in the requested
// representation (lambda is only used by the scaled ones).
func ElemFromRef(p refmodel.Point, rp Repr, lambda *big.Int) banderwagon.Element {
	x, y := p.Affine()
	z := big.NewInt(1)
	P := refmodel.P
	if rp == ReprFlipped || rp == ReprBoth {
		x = new(big.Int).Mod(new(big.Int).Neg(x), P)
		y = new(big.Int).Mod(new(big.Int).Neg(y), P)
	}
	if rp == ReprScaled || rp == ReprBoth {
		l := new(big.Int).Mod(lambda, P)
		if l.Sign() == 0 {
			l.SetInt64(7)
		}
		x = new(big.Int).Mod(new(big.Int).Mul(x, l), P)
		y = new(big.Int).Mod(new(big.Int).Mul(y, l), P)
		z = l
	}
	var e banderwagon.Element
	l := (*elemLayout)(unsafe.Pointer(&e))
	l.X, l.Y, l.Z = FpFromBig(x), FpFromBig(y), FpFromBig(z)
	return e
}

// RefFromElem reads a library element into the reference model (no library
// arithmetic involved). ok=false for Z=0.
func RefFromElem(e *banderwagon.Element) (refmodel.Point, bool) {
	l := (*elemLayout)(unsafe.Pointer(e))
	return refFromXYZ(l.X, l.Y, l.Z)
}

func refFromXYZ(X, Y, Z fp.Element) (refmodel.Point, bool) {
	x, y, z := FpToBig(X), FpToBig(Y), FpToBig(Z)
	if z.Sign() == 0 {
		return refmodel.Point{}, false
	}
	zi := new(big.Int).ModInverse(z, refmodel.P)
	x.Mul(x, zi).Mod(x, refmodel.P)
	y.Mul(y, zi).Mod(y, refmodel.P)
	return refmodel.FromAffine(x, y), true
}

func RefFromProj(p *bandersnatch.PointProj) (refmodel.Point, bool) { return refFromXYZ(p.X, p.Y, p.Z) }

func AffineFromRef(p refmodel.Point) bandersnatch.PointAffine {
	x, y := p.Affine()
	return bandersnatch.PointAffine{X: FpFromBig(x), Y: FpFromBig(y)}
}

func elemLayoutOf(e *banderwagon.Element) *elemLayout { return (*elemLayout)(unsafe.Pointer(e)) }

func elemRaw(e *banderwagon.Element) [12]uint64 { return *(*[12]uint64)(unsafe.Pointer(e)) }

// ---------------------------------------------------------------------------
// Per-process environment.

type Env struct {
	Tier         string
	CachePath    string
	CfgFromCache bool
	cfg  *ipa.IPAConfig
	once sync.Once

	poolOnce sync.Once
	poolK    []*big.Int
	poolP    []refmodel.Point
}

var env = &Env{}

// Config returns the shared IPAConfig, built once per process in pass-through
// mode (real goroutines, real CPU count) before any simulation starts.
func (e *Env) Config() *ipa.IPAConfig {
	e.once.Do(func() {
		if verifsim.Active() {
			panic("Env.Config must first be called outside a simulation")
		}
		if e.CachePath != "" {
			if c, err := LoadConfigCache(e.CachePath); err == nil {
				e.cfg = c
				e.CfgFromCache = true
				return
			} else {
				fmt.Fprintln(os.Stderr, "config cache unusable, building:", err)
			}
		}
		c, err := ipa.NewIPASettings()
		if err != nil {
			panic(err)
		}
		e.cfg = c
	})
	return e.cfg
}

// FreshConfig replaces the process-wide configuration by a pristine copy loaded
// from the cache (a configuration on which no API call has been made yet), so that
// lazily initialised state inside the configuration is cold again. No-op without a cache.
func (e *Env) FreshConfig() bool {
	e.Config()
	if e.CachePath == "" || !e.CfgFromCache {
		return false
	}
	// drop the old copy first: two 350 MB configurations (times the race detector's shadow
	// memory) per worker are too much for 16 workers
	e.cfg = nil
	runtime.GC()
	debug.FreeOSMemory()
	c, err := LoadConfigCache(e.CachePath)
	if err != nil {
		c, err = ipa.NewIPASettings()
		if err != nil {
			panic(err)
		}
		e.cfg = c
		return false
	}
	e.cfg = c
	return true
}

const poolSize = 4096

// Pool returns reference points with known discrete logarithms w.r.t. the
// generator: poolP[i] = poolK[i]*G.
func (e *Env) Pool() ([]*big.Int, []refmodel.Point) {
	e.poolOnce.Do(func() {
		r := NewRng(0x706f6f6c, 0, "pool")
		g := refmodel.Generator()
		var bk [8]*big.Int
		var bp [8]refmodel.Point
		for j := range bk {
			bk[j] = r.Scalar()
			bp[j] = g.Mul(bk[j])
		}
		k := r.Scalar()
		p := g.Mul(k)
		for i := 0; i < poolSize; i++ {
			e.poolK = append(e.poolK, new(big.Int).Set(k))
			x, y := p.Affine()
			e.poolP = append(e.poolP, refmodel.FromAffine(x, y))
			k = new(big.Int).Add(k, bk[i%8])
			k.Mod(k, refmodel.R)
			p = p.Add(bp[i%8])
		}
	})
	return e.poolK, e.poolP
}

// ---------------------------------------------------------------------------
// Job protocol between check.py and a worker process.

type Job struct {
	Prop     string          `json:"prop"`
	Mode     string          `json:"mode"` // explore | replay | shrink | selftest
	Tier     string          `json:"tier"`
	Seed     uint64          `json:"seed"`
	Shard    int             `json:"shard"`
	NShards  int             `json:"nshards"`
	Runs     int             `json:"runs"`     // total runs over all shards (explore)
	BudgetS  float64         `json:"budget_s"` // wall-clock cap for this worker
	OnlyRun  int             `json:"only_run"` // explore: execute just this run index (-1 = all)
	FirstRun int             `json:"first_run"` // explore: skip runs below this index (continuation of a retired worker)
	Plan     json.RawMessage `json:"plan"`     // replay / shrink
	Out      string          `json:"out"`
	Known    []string        `json:"known"`   // known-finding keys (class strings) not to count
	Variant  string          `json:"variant"` // property-specific sub-mode (e.g. big-window MSM process)
	Samples  int             `json:"samples"`
	ShrinkS  float64         `json:"shrink_s"`
	WantClass string         `json:"want_class"`
	ConfigCache string       `json:"config_cache"`
}

type Summary struct {
	Prop        string            `json:"prop"`
	Shard       int               `json:"shard"`
	Runs        int               `json:"runs"`
	Nontrivial  int               `json:"nontrivial"`
	Steps       int64             `json:"steps"`
	Tasks       int64             `json:"tasks"`
	MaxParked   int               `json:"max_parked"`
	SimNs       int64             `json:"sim_ns"`
	WallS       float64           `json:"wall_s"`
	Keys        []string          `json:"keys"` // distinct (trace, config, shape) keys of non-trivial runs
	Faults      map[string]int    `json:"faults"`
	Notes       map[string]int    `json:"notes"`
	Shapes      map[string]int    `json:"shapes"`
	SiteOrders  map[string]int    `json:"site_orders"` // fan-in site -> distinct arrival orders seen
	siteSets    map[string]map[uint64]struct{}
	Policies    map[string]int    `json:"policies"`
	NumCPUs     map[string]int    `json:"numcpus"`
	Samples     []json.RawMessage `json:"samples"`
	Violations  []Failure         `json:"violations"`
	KnownHits   map[string]int    `json:"known_hits"`
	Infra       []string          `json:"infra"`
	ProbesHit   []int             `json:"probes_hit"`
	TimedOut    bool              `json:"timed_out"`
	Retired     bool              `json:"retired"` // stopped early because a run left goroutines behind
	RetiredAt   int               `json:"retired_at"` // first run index the continuation has to execute
	FirstRun    int               `json:"first_run"`
	LastRun     int               `json:"last_run"`
}

type Failure struct {
	Run    int             `json:"run"`
	Class  string          `json:"class"`
	Detail string          `json:"detail"`
	Plan   json.RawMessage `json:"plan"`
}

// Property is what each claimed property implements.
type Property interface {
	// Gen draws the plan of run number `run` (a pure function of seed and run).
	Gen(seed uint64, run int, tier string, variant string) interface{}
	// Exec executes a plan and judges it.
	Exec(plan interface{}) Result
	// Decode parses a plan from JSON.
	Decode(raw json.RawMessage) (interface{}, error)
	// Shrink proposes strictly simpler variants of a failing plan.
	Shrink(plan interface{}) []interface{}
	// Sched gives access to the scheduler configurations embedded in the plan
	// (for schedule shrinking); nil if the property has no scheduler.
	Sched(plan interface{}) []*SimCfg
	// Prepare is called once per process before the first Exec.
	Prepare(tier string)
}

var registry = map[string]Property{}

func register(name string, p Property) { registry[name] = p }

func mustJSON(v interface{}) json.RawMessage {
	b, err := json.Marshal(v)
	if err != nil {
		panic(err)
	}
	return b
}

func keyOf(res *Result, policy string, ncpu int) string {
	return fmt.Sprintf("%016x|%s|%d|%s", res.Trace, policy, ncpu, res.Shape)
}

func sortedKeys(m map[string]struct{}) []string {
	out := make([]string, 0, len(m))
	for k := range m {
		out = append(out, k)
	}
	sort.Strings(out)
	return out
}

func writeJSON(path string, v interface{}) {
	b, err := json.Marshal(v)
	if err != nil {
		panic(err)
	}
	tmp := path + ".tmp"
	if err := os.WriteFile(tmp, b, 0o644); err != nil {
		panic(err)
	}
	if err := os.Rename(tmp, path); err != nil {
		panic(err)
	}
}

var startWall = time.Now()
