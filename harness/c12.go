package harness

import (
	"encoding/json"
	"fmt"

	"github.com/crate-crypto/go-ipa/verifsim"
)

// C12 — a shared configuration can be used concurrently without interference:
// every call returns what it returns alone, no data race (this check is built
// with -race; the scheduler's handoffs are hidden from the detector), nothing
// blocks forever.

type C12Plan struct {
	Clients [][]OpSpec `json:"clients"`
	Sim     SimCfg     `json:"sim"`
	Solo    SimCfg     `json:"solo_sim"`
	Pristine bool      `json:"pristine_config"` // reload a configuration no API call has touched yet (cold lazy state)
}

type c12 struct{}

func init() { register("C12", c12{}) }

var siteC12Client = verifsim.HarnessSite("harness:C12 client start/finish")
var siteC12Between = verifsim.HarnessSite("harness:C12 between client operations")

func (c12) Prepare(string) { env.Config(); env.Pool() }

func (c12) Gen(seed uint64, run int, tier, variant string) interface{} {
	r := NewRng(seed, run, "C12")
	var p C12Plan
	nc := 2 + r.Intn(7)
	// swarm: each run enables a random subset of operation kinds
	for c := 0; c < nc; c++ {
		var ops []OpSpec
		for k := 0; k < 1+r.Intn(5); k++ {
			ops = append(ops, genOp(r))
		}
		p.Clients = append(p.Clients, ops)
	}
	if r.Chance(6) {
		// a crowd: more clients than any per-CPU resource the library might pre-allocate on this
		// machine, one small operation each
		k := genOp(r)
		k.Kind = []string{"prove", "verify", "commit", "ipa", "pipe-roundtrip", "readproof"}[r.Intn(6)]
		if k.Size == 0 || k.Size > 2 {
			k.Size = 1
		}
		p.Clients = nil
		for c := 0; c < 18+r.Intn(20); c++ {
			p.Clients = append(p.Clients, []OpSpec{{Kind: k.Kind, Seed: r.U64(), Size: k.Size}})
		}
	} else if r.Chance(25) {
		// many clients hammering the same kind of operation
		k := genOp(r)
		for c := range p.Clients {
			for i := range p.Clients[c] {
				p.Clients[c][i].Kind = k.Kind
				p.Clients[c][i].Size = k.Size
			}
		}
	}
	p.Sim = GenSimCfg(r, 0, 64)
	// always the simulator's pool: its hand-overs carry exact per-object
	// happens-before edges (the real sync.Pool's hashed race addresses would hide
	// races non-deterministically)
	p.Sim.PoolBuggy = true
	p.Pristine = r.Chance(34)
	p.Solo = SimCfg{NumCPU: p.Sim.NumCPU, Policy: "fifo", Seed: r.U64(), PoolBuggy: true, PoolMode: p.Sim.PoolMode}
	return &p
}

func (c12) Decode(raw json.RawMessage) (interface{}, error) {
	var p C12Plan
	err := json.Unmarshal(raw, &p)
	return &p, err
}

func (c12) Sched(plan interface{}) []*SimCfg {
	p := plan.(*C12Plan)
	return []*SimCfg{&p.Sim}
}

type c12res struct {
	client int
	outs   []string
}

func (c12) Exec(plan interface{}) Result {
	p := plan.(*C12Plan)
	var res Result
	nops := 0
	kinds := map[string]bool{}
	for _, c := range p.Clients {
		nops += len(c)
		for _, o := range c {
			kinds[o.Kind] = true
		}
	}
	res.Shape = fmt.Sprintf("clients=%d ops=%d kinds=%d cpu=%d pool=%v", len(p.Clients), nops, len(kinds), p.Sim.NumCPU, p.Sim.PoolBuggy)
	// The concurrent phase runs FIRST and on a pristine configuration (no API call has
	// touched it yet): lazily initialised state inside the shared configuration or the
	// package is built for the first time while several clients are active.
	if p.Pristine && env.FreshConfig() {
		res.note("pristine-config")
	}
	// ONE simulation for both phases (a library that keeps worker goroutines alive across
	// calls must find them in the same bubble): first all clients concurrently, then every
	// operation alone, one after the other, on the same task.
	type both struct{ conc, solo [][]string }
	bo, out2 := Simulate(p.Sim, 60000, func() both {
		done := make(chan c12res, len(p.Clients))
		for c := range p.Clients {
			c := c
			verifsim.Go(siteC12Client, func() {
				var outs []string
				for _, o := range p.Clients[c] {
					outs = append(outs, runOp(o))
					verifsim.Yield(siteC12Between)
				}
				verifsim.Send(done, c12res{c, outs}, siteC12Client)
			})
		}
		all := make([][]string, len(p.Clients))
		for range p.Clients {
			r := verifsim.Recv(done, siteC12Client)
			all[r.client] = r.outs
		}
		solo := make([][]string, len(p.Clients))
		for c, ops := range p.Clients {
			for _, o := range ops {
				solo[c] = append(solo[c], runOp(o))
			}
		}
		return both{all, solo}
	})
	res.absorb(out2)
	if res.Class != "" || res.Infra != "" {
		return res
	}
	conc, solo := bo.conc, bo.solo
	for c := range p.Clients {
		for i := range p.Clients[c] {
			if i >= len(conc[c]) || conc[c][i] != solo[c][i] {
				o := p.Clients[c][i]
				return mergeViolation(res, "interference", "client %d op %d (%s size=%d): output under concurrency differs from its output when executed alone (%d clients, cpu=%d)", c, i, o.Kind, o.Size, len(p.Clients), p.Sim.NumCPU)
			}
		}
	}
	res.OK = true
	return res
}

func (c12) Shrink(plan interface{}) []interface{} {
	p := plan.(*C12Plan)
	var out []interface{}
	cp := func() *C12Plan {
		q := *p
		q.Clients = make([][]OpSpec, len(p.Clients))
		for i := range p.Clients {
			q.Clients[i] = append([]OpSpec{}, p.Clients[i]...)
		}
		return &q
	}
	if len(p.Clients) > 1 {
		for k := range p.Clients {
			q := cp()
			q.Clients = append(q.Clients[:k], q.Clients[k+1:]...)
			out = append(out, q)
		}
	}
	for c := range p.Clients {
		if len(p.Clients[c]) > 1 {
			for k := range p.Clients[c] {
				q := cp()
				q.Clients[c] = append(q.Clients[c][:k], q.Clients[c][k+1:]...)
				out = append(out, q)
			}
		}
	}
	for c := range p.Clients {
		for k, o := range p.Clients[c] {
			if o.Size > 1 {
				q := cp()
				q.Clients[c][k].Size = 1
				out = append(out, q)
			}
		}
	}
	for _, sc := range shrinkSim(p.Sim) {
		q := cp()
		q.Sim = sc
		q.Solo.NumCPU = sc.NumCPU
		out = append(out, q)
	}
	return out
}
