package harness

import (
	"bytes"
	"encoding/json"
	"fmt"
	"math/big"
	"reflect"
	"sort"
	"strings"
	"unsafe"

	multiproof "github.com/crate-crypto/go-ipa"
	"github.com/crate-crypto/go-ipa/bandersnatch"
	"github.com/crate-crypto/go-ipa/bandersnatch/fp"
	"github.com/crate-crypto/go-ipa/bandersnatch/fr"
	"github.com/crate-crypto/go-ipa/banderwagon"
	"github.com/crate-crypto/go-ipa/common"
	"github.com/crate-crypto/go-ipa/common/parallel"
	"github.com/crate-crypto/go-ipa/ipa"
	"github.com/crate-crypto/go-ipa/test_helper"
	"verif/refmodel"
)

// C13 — operations are pure: the configuration, the package-level state and
// caller-supplied inputs are never modified, and results do not depend on the
// calls that preceded them. Seeded call histories over SHARED argument objects,
// fingerprints after every call.

type C13Call struct {
	Kind string `json:"kind"`
	A    int    `json:"a,omitempty"` // argument selectors into the arena
	B    int    `json:"b,omitempty"`
	N    int    `json:"n,omitempty"`
	Flag bool   `json:"flag,omitempty"`
	Seed uint64 `json:"seed,omitempty"`
}

type C13Plan struct {
	ArenaSeed uint64    `json:"arena_seed"`
	Calls     []C13Call `json:"calls"`
	Sim       SimCfg    `json:"sim"`
}

type c13 struct{}

// classified once, before the harness has made a single library call
var c13growable map[string]bool

func init() {
	register("C13", c13{})
	c13growable = growableState()
}

var c13Kinds = []string{
	"commit", "prove", "prove", "verify", "verify-wrong", "ipa-prove", "ipa-verify",
	"msm-ipa", "msm-bw", "msm-bs", "batchnorm", "tobytes", "mapfield",
	"decode-point", "decode-uncompressed", "fr-setbytes", "fr-setbytes-le", "fr-setbytes-le-canonical", "fr-batchinvert", "fr-misc",
	"transcript", "proof-write", "proof-read", "groupops", "weights", "innerprod", "powers", "precomp-point", "execute",
	// calls that must fail
	"transcript-retain", "fail-prove-zero-commitment",
	"readpoint-mutate", "readscalar-mutate", "prove-mutate-result", "fr-setbigint", "fr-setinterface", "setidentity-mutate",
	"results-mutate", "fr-exp", "proof-read-reuse", "decode-trust-sequence", "commit-short", "prove-twice-keep-first", "two-configs",
	"fail-prove-len", "fail-prove-zero", "fail-prove-polylen", "fail-verify-len", "fail-verify-shape", "fail-ipa-verify-shape", "fail-batchnorm-zero", "fail-read-short", "fail-decode-noncanonical", "fail-msm-len",
}

func (c13) Prepare(string) {
	env.Pool()
	c13early() // before the first library call of this process (the configuration load makes one)
	env.Config()
	c13globals()
}

// Early probes: light calls (no configuration, no library-made objects) executed on a fixed light
// arena as the very first library calls of the worker process, their results remembered, and
// executed again at the end of every history. A call of one kind that leaves something behind which
// changes what a LATER call of ANOTHER kind returns (and keeps returning) is invisible to "same call,
// two positions" comparisons inside one history; it is visible against the process-start result.
var c13earlyCalls = []C13Call{
	{Kind: "mapfield", A: 1, N: 5}, {Kind: "tobytes", N: 6}, {Kind: "decode-point", A: 1}, {Kind: "decode-uncompressed", A: 2},
	{Kind: "decode-uncompressed", A: 3, Flag: true}, {Kind: "fr-setbytes", A: 1}, {Kind: "fr-setbytes-le", A: 2}, {Kind: "fr-misc", A: 4, B: 5},
	{Kind: "fr-batchinvert", N: 9}, {Kind: "powers", A: 4, N: 9}, {Kind: "transcript", A: 1, B: 2, N: 3}, {Kind: "groupops", A: 1, B: 2, N: 3},
	{Kind: "innerprod", A: 0, B: 1}, {Kind: "msm-bw", A: 3, N: 6, Flag: true}, {Kind: "msm-bs", A: 2, N: 5},
}
var c13lightKinds = map[string]bool{}
var c13earlyArena *arena
var c13earlyDigests []string

func c13early() {
	if c13earlyArena != nil {
		return
	}
	for _, c := range c13earlyCalls {
		c13lightKinds[c.Kind] = true
	}
	c13earlyArena = buildLightArena(0x11687)
	for _, c := range c13earlyCalls {
		d, _ := doCall(c13earlyArena, c)
		c13earlyDigests = append(c13earlyDigests, d)
	}
}

// buildLightArena builds caller-owned arguments WITHOUT any library call (limbs and bytes come from
// the reference model): elements, scalars, polynomials, byte buffers, labels.
func buildLightArena(seed uint64) *arena {
	r := NewRng(seed, 0, "light arena")
	_, poolP := env.Pool()
	a := &arena{}
	a.PolyBack = make([]fr.Element, (nPolys+1)*256)
	for i := 0; i < nPolys; i++ {
		f := a.PolyBack[i*256 : (i+1)*256]
		copy(f, sparsePoly(r))
		a.Polys = append(a.Polys, f)
		a.Zs = append(a.Zs, uint8(r.Intn(256)))
	}
	for i := 0; i < nElems; i++ {
		e := ElemFromRef(poolP[r.Intn(poolSize)], Repr(r.Intn(int(NumReprs))), r.Scalar())
		a.Elems = append(a.Elems, &e)
		a.ElemVal = append(a.ElemVal, ElemFromRef(poolP[r.Intn(poolSize)], Repr(r.Intn(int(NumReprs))), r.Scalar()))
		a.Affine = append(a.Affine, AffineFromRef(poolP[r.Intn(poolSize)]))
		enc := poolP[r.Intn(poolSize)].Encode()
		a.Buf32 = append(a.Buf32, append([]byte{}, enc[:]...))
		u := refmodel.EncodeUncompressed(poolP[r.Intn(poolSize)])
		a.Buf64 = append(a.Buf64, append([]byte{}, u[:]...))
	}
	for i := 0; i < nScal; i++ {
		a.Scalars = append(a.Scalars, FrFromBig(r.Scalar()))
		e := FrFromBig(r.Scalar())
		a.ScalPtr = append(a.ScalPtr, &e)
	}
	for i := 0; i < nBufs; i++ {
		s := r.Scalar()
		a.BufS = append(a.BufS, le32(s))
		a.BufBig = append(a.BufBig, be32(s))
		a.Labels = append(a.Labels, []byte(genLabel(r)+"L"))
	}
	return a
}

func (c13) Gen(seed uint64, run int, tier, variant string) interface{} {
	r := NewRng(seed, run, "C13")
	var p C13Plan
	p.ArenaSeed = r.U64()
	n := 5 + r.Intn(36)
	// swarm: a random subset of call kinds per history
	var enabled []string
	for _, k := range c13Kinds {
		if r.Chance(55) {
			enabled = append(enabled, k)
		}
	}
	if len(enabled) == 0 {
		enabled = c13Kinds
	}
	for i := 0; i < n; i++ {
		p.Calls = append(p.Calls, C13Call{Kind: enabled[r.Intn(len(enabled))], A: r.Intn(64), B: r.Intn(64), N: r.Intn(64), Flag: r.Bool(), Seed: r.U64()})
	}
	p.Sim = GenSimCfg(r, 0, 64)
	return &p
}

func (c13) Decode(raw json.RawMessage) (interface{}, error) {
	var p C13Plan
	err := json.Unmarshal(raw, &p)
	return &p, err
}

func (c13) Sched(plan interface{}) []*SimCfg { return []*SimCfg{&plan.(*C13Plan).Sim} }

// ---- the arena of shared, caller-owned argument objects ---------------------

const (
	nPolys  = 4
	nElems  = 8
	nScal   = 24
	nBufs   = 6
	nProofs = 2
)

type arena struct {
	Polys   [][]fr.Element          // input polynomials
	Commits []*banderwagon.Element  // Commit(Polys[i]); value objects (may be re-normalised by the prover)
	Elems   []*banderwagon.Element  // assorted group elements; value objects for BatchNormalize, inputs otherwise
	ElemVal []banderwagon.Element   // elements passed by value in slices (pure inputs)
	Affine  []bandersnatch.PointAffine
	Scalars []fr.Element
	ScalPtr []*fr.Element
	Zs      []uint8
	Buf32   [][]byte // canonical compressed points
	Buf64   [][]byte // uncompressed points
	BufS    [][]byte // little-endian canonical scalars
	BufBig  [][]byte // big-endian scalars
	BufBad  [][]byte // non-canonical encodings
	Labels  [][]byte
	Proofs  []*multiproof.MultiProof // honest proofs for (Commits[k], Zs[k]), (k, k+1)
	ProofBytes [][]byte
	ProofYs [][]*fr.Element
	ProofZs [][]uint8
	IPAProof ipa.IPAProof
	IPAEval fr.Element
	IPARes  fr.Element
	NonSubgroup []byte // encoding of an on-curve point outside the prime-order subgroup
	BigInts []*big.Int // caller-owned integers: in range, >= r, negative, r itself, 0
	// caller-owned opening lists (statements), passed to the prover as they are
	Stmts []*c13stmt
	// backing arrays: polynomials and proof points are carved out of shared arrays with spare
	// capacity behind every slice, the way an application arena would do it, so that an
	// append into "free" capacity lands in a neighbour and shows up in the fingerprint
	PolyBack  []fr.Element
	ProofBack []banderwagon.Element
}

type c13stmt struct {
	Label string
	Cs    []*banderwagon.Element
	Fs    [][]fr.Element
	Zs    []uint8
	Ys    []*fr.Element
}

func buildArena(seed uint64) *arena {
	cfg := env.Config()
	r := NewRng(seed, 0, "arena")
	_, poolP := env.Pool()
	a := &arena{}
	a.PolyBack = make([]fr.Element, (nPolys+1)*256)
	a.ProofBack = make([]banderwagon.Element, (nProofs+2)*16)
	for i := range a.ProofBack {
		a.ProofBack[i] = banderwagon.Identity
	}
	for i := 0; i < nPolys; i++ {
		f := a.PolyBack[i*256 : (i+1)*256] // capacity reaches into the next polynomial
		copy(f, sparsePoly(r))
		if i == 0 {
			for j := range f {
				f[j] = FrFromBig(r.Scalar())
			}
		}
		a.Polys = append(a.Polys, f)
		c := cfg.Commit(f)
		if r.Bool() {
			rp, _ := RefFromElem(&c)
			c = ElemFromRef(rp, Repr(r.Intn(int(NumReprs))), r.Scalar())
		}
		a.Commits = append(a.Commits, &c)
		a.Zs = append(a.Zs, uint8(r.Intn(256)))
	}
	for i := 0; i < nElems; i++ {
		e := ElemFromRef(poolP[r.Intn(poolSize)], Repr(r.Intn(int(NumReprs))), r.Scalar())
		a.Elems = append(a.Elems, &e)
		a.ElemVal = append(a.ElemVal, ElemFromRef(poolP[r.Intn(poolSize)], Repr(r.Intn(int(NumReprs))), r.Scalar()))
		a.Affine = append(a.Affine, AffineFromRef(poolP[r.Intn(poolSize)]))
		enc := poolP[r.Intn(poolSize)].Encode()
		a.Buf32 = append(a.Buf32, append([]byte{}, enc[:]...))
		u := refmodel.EncodeUncompressed(poolP[r.Intn(poolSize)])
		a.Buf64 = append(a.Buf64, append([]byte{}, u[:]...))
	}
	for i := 0; i < nScal; i++ {
		s := r.Scalar()
		if i < 3 {
			s = big.NewInt(int64(i))
		}
		a.Scalars = append(a.Scalars, FrFromBig(s))
		e := FrFromBig(r.Scalar())
		a.ScalPtr = append(a.ScalPtr, &e)
	}
	for i := 0; i < nBufs; i++ {
		s := r.Scalar()
		a.BufS = append(a.BufS, le32(s))
		a.BufBig = append(a.BufBig, be32(s))
		bad := new(big.Int).Add(refmodel.R, big.NewInt(int64(i)))
		a.BufBad = append(a.BufBad, le32(bad))
		a.Labels = append(a.Labels, []byte(genLabel(r)+"L"))
	}
	a.NonSubgroup = be32(findX(r, "non-subgroup"))
	a.BigInts = []*big.Int{
		r.Scalar(),
		new(big.Int).Add(refmodel.R, big.NewInt(5)),
		new(big.Int).Neg(big.NewInt(7)),
		new(big.Int).Set(refmodel.R),
		new(big.Int),
		new(big.Int).Lsh(r.Scalar(), 300),
		new(big.Int).Neg(new(big.Int).Lsh(r.Scalar(), 70)),
	}
	for k := 0; k < nProofs; k++ {
		// private copies: the arena's commitments keep their (possibly non-normalised) representation
		c0, c1 := *a.Commits[k], *a.Commits[k+1]
		Cs := []*banderwagon.Element{&c0, &c1}
		fs := [][]fr.Element{a.Polys[k], a.Polys[k+1]}
		zs := []uint8{a.Zs[k], a.Zs[k+1]}
		p, err := multiproof.CreateMultiProof(common.NewTranscript("arena"), cfg, Cs, fs, zs)
		if err != nil {
			panic(err)
		}
		// re-home the proof's points into the shared backing array |L0|R0|L1|R1|...
		L := a.ProofBack[16*k : 16*k+8]
		R := a.ProofBack[16*k+8 : 16*k+16]
		copy(L, p.IPA.L)
		copy(R, p.IPA.R)
		p.IPA.L, p.IPA.R = L, R
		a.Proofs = append(a.Proofs, p)
		var b bytes.Buffer
		p.Write(&b)
		a.ProofBytes = append(a.ProofBytes, b.Bytes())
		y0, y1 := a.Polys[k][zs[0]], a.Polys[k+1][zs[1]]
		a.ProofYs = append(a.ProofYs, []*fr.Element{&y0, &y1})
		a.ProofZs = append(a.ProofZs, append(make([]uint8, 0, 8), zs...)) // spare capacity on purpose
	}
	a.IPAEval = FrFromBig(r.Scalar())
	ip, err := ipa.CreateIPAProof(common.NewTranscript("arena-ipa"), cfg, *a.Commits[0], a.Polys[0], a.IPAEval)
	if err != nil {
		panic(err)
	}
	{
		L := a.ProofBack[16*nProofs : 16*nProofs+8]
		R := a.ProofBack[16*nProofs+8 : 16*nProofs+16]
		copy(L, ip.L)
		copy(R, ip.R)
		ip.L, ip.R = L, R
	}
	a.IPAProof = ip
	// opening lists owned by the caller: deliberately NOT sorted by evaluation index, repeated
	// indices, repeated commitments
	for k := 0; k < 3; k++ {
		st := &c13stmt{Label: genLabel(r)}
		n := 2 + k
		for i := 0; i < n; i++ {
			pi := (k + 2*i + i*i) % nPolys
			z := a.Zs[(k+3*i)%nPolys]
			if i == n-1 {
				z = st.Zs[0] // shares its evaluation index with the first opening
			}
			if i == 1 {
				z = uint8(int(st.Zs[0]) * 7 / 8) // smaller than its predecessor unless that is 0
			}
			st.Cs = append(st.Cs, a.Commits[pi])
			st.Fs = append(st.Fs, a.Polys[pi])
			st.Zs = append(st.Zs, z)
			y := a.Polys[pi][z]
			st.Ys = append(st.Ys, &y)
		}
		a.Stmts = append(a.Stmts, st)
	}
	bc := cfg.PrecomputedWeights.ComputeBarycentricCoefficients(a.IPAEval)
	a.IPARes, _ = ipa.InnerProd(a.Polys[0], bc)
	return a
}

// valueView replaces the "value objects" (commitments and elements that the API
// is allowed to re-normalise) by their canonical encodings, so that the strict
// fingerprint covers everything else bit by bit.
type arenaPrint struct {
	strict uint64
	values [][32]byte
}

func (a *arena) print() arenaPrint {
	var p arenaPrint
	saveC, saveE := a.Commits, a.Elems
	for _, c := range a.Commits {
		p.values = append(p.values, c.Bytes())
	}
	for _, e := range a.Elems {
		p.values = append(p.values, e.Bytes())
	}
	a.Commits, a.Elems = nil, nil
	// the statements' commitment lists hold the same pointers: keep their order (identity of
	// the pointers) in the strict part, their pointees in the value part
	saveCs := make([][]*banderwagon.Element, len(a.Stmts))
	var order []uintptr
	for i, st := range a.Stmts {
		saveCs[i] = st.Cs
		for _, c := range st.Cs {
			order = append(order, uintptr(unsafe.Pointer(c)))
		}
		order = append(order, 0)
		st.Cs = nil
	}
	p.strict = CapFingerprint(a) ^ mix(Fingerprint(&order))
	for i, st := range a.Stmts {
		st.Cs = saveCs[i]
	}
	a.Commits, a.Elems = saveC, saveE
	return p
}

func (a *arena) rawValues() uint64 {
	return Fingerprint(&struct {
		C, E []*banderwagon.Element
	}{a.Commits, a.Elems})
}

// ---- package-level state ------------------------------------------------------

var c13globalRoots map[string]interface{}

func c13globals() map[string]interface{} {
	if c13globalRoots != nil {
		return c13globalRoots
	}
	g := map[string]interface{}{}
	add := func(pkg string, m map[string]interface{}) {
		for k, v := range m {
			g[pkg+"."+k] = v
		}
	}
	add("multiproof", multiproof.VerifGlobals())
	add("ipa", ipa.VerifGlobals())
	add("common", common.VerifGlobals())
	add("parallel", parallel.VerifGlobals())
	add("banderwagon", banderwagon.VerifGlobals())
	add("bandersnatch", bandersnatch.VerifGlobals())
	add("fr", fr.VerifGlobals())
	add("fp", fp.VerifGlobals())
	add("test_helper", test_helper.VerifGlobals())
	c13globalRoots = g
	return g
}

// zeroPrints: fingerprint of the zero value of every package-level variable's type.
func zeroPrints() map[string]uint64 {
	out := map[string]uint64{}
	for k, v := range c13globals() {
		t := reflect.TypeOf(v).Elem()
		if skipType(t) {
			continue
		}
		out[k] = Fingerprint(reflect.New(t).Interface())
	}
	return out
}

// growableState: package-level variables that are empty when the history starts (zero value,
// nil or empty map/slice): caches, memo tables, lazily built tables. The property is about the
// library's constants and about results not depending on history; a private cache that fills up
// is neither, so changes of such variables are tolerated and the history-independence checks
// (probes before/after, every call replayed at the end) decide. Anything that holds data at the
// start (labels, moduli, generator, curve parameters, tables) is strict.
func growableState() map[string]bool {
	out := map[string]bool{}
	for k, v := range c13globals() {
		rv := reflect.ValueOf(v).Elem()
		if skipType(rv.Type()) || exportedVar(k) {
			continue
		}
		// holds no data: equal to its type's zero value up to nil-vs-empty containers
		if LaxFingerprint(v) == LaxFingerprint(reflect.New(rv.Type()).Interface()) {
			out[k] = true
		}
	}
	return out
}

func exportedVar(k string) bool {
	for i := len(k) - 1; i >= 0; i-- {
		if k[i] == '.' {
			return i+1 < len(k) && k[i+1] >= 'A' && k[i+1] <= 'Z'
		}
	}
	return false
}

func globalsPrint() map[string]uint64 {
	out := map[string]uint64{}
	for k, v := range c13globals() {
		if skipType(reflect.TypeOf(v).Elem()) {
			continue
		}
		out[k] = Fingerprint(v)
	}
	return out
}

// configPrint: light part in full, MSM tables by stripe (stripe<0: everything).
func configPrint(cfg *ipa.IPAConfig, stripe int) (light uint64, tables uint64) {
	v := reflect.ValueOf(cfg).Elem()
	w := newWalker()
	var pre reflect.Value
	for i := 0; i < v.NumField(); i++ {
		f := access(v.Field(i))
		if v.Type().Field(i).Name == "PrecompMSM" {
			pre = f
			continue
		}
		w.walk(f)
	}
	light = w.h.Sum64()
	if !pre.IsValid() {
		return
	}
	tw := newWalker()
	// PrecompMSM{precompPoints [256]PrecompPoint}
	done := false
	if pre.Kind() == reflect.Struct && pre.NumField() == 1 {
		arr := access(pre.Field(0))
		if arr.Kind() == reflect.Array {
			for i := 0; i < arr.Len(); i++ {
				if stripe < 0 || i%16 == stripe%16 {
					tw.walk(arr.Index(i))
				}
			}
			done = true
		}
	}
	if !done {
		tw.walk(pre)
	}
	tables = tw.h.Sum64()
	return
}

// ---- executing one call --------------------------------------------------------

type shortReader struct {
	data []byte
	pos  int
}

func (s *shortReader) Read(p []byte) (int, error) {
	if s.pos >= len(s.data) {
		return 0, fmt.Errorf("short reader: no more data")
	}
	n := copy(p, s.data[s.pos:])
	s.pos += n
	return n, nil
}

// doCall executes a call on the shared arena and returns a digest of its outputs
// plus whether it (as expected for fail-* kinds) returned an error.
func doCall(a *arena, c C13Call) (out string, failed bool) {
	var cfg *ipa.IPAConfig
	if !c13lightKinds[c.Kind] || env.cfg != nil {
		cfg = env.Config()
	}
	_ = cfg
	pick := func(n, k int) int { return k % n }
	switch c.Kind {
	case "commit":
		e := cfg.Commit(a.Polys[pick(nPolys, c.A)])
		return digest(e.Bytes()), false
	case "readpoint-mutate", "readscalar-mutate", "setidentity-mutate":
		// Objects returned by pointer belong to the caller: use them as the destination of
		// further operations. Nothing shared (package variables, configuration) may change.
		var scribble banderwagon.Element
		scribble.Add(a.Elems[pick(nElems, c.A)], a.Elems[pick(nElems, c.B)])
		switch c.Kind {
		case "readpoint-mutate":
			src := a.Buf32[pick(nElems, c.A)]
			if c.N%3 == 0 {
				src = make([]byte, 32) // the encoding of the identity
			}
			pt, err := common.ReadPoint(bytes.NewReader(src))
			if err != nil {
				return digest("err"), true
			}
			before := pt.Bytes()
			pt.Add(pt, &scribble)
			pt.Double(pt)
			return digest(before, pt.Bytes()), false
		case "readscalar-mutate":
			sc, err := common.ReadScalar(bytes.NewReader(a.BufS[pick(nBufs, c.A)]))
			if err != nil {
				return digest("err"), true
			}
			before := *sc
			sc.Add(sc, &a.Scalars[pick(nScal, c.B)])
			sc.Double(sc)
			return digest(before, *sc), false
		default:
			var e banderwagon.Element
			p := e.SetIdentity()
			before := p.Bytes()
			p.Add(p, &scribble)
			g := banderwagon.Generator
			g.Double(&g)
			id := banderwagon.Identity
			id.Add(&id, &scribble)
			return digest(before, p.Bytes(), g.Bytes(), id.Bytes()), false
		}
	case "proof-read-reuse":
		// a proof value is copied (by value: the copy shares nothing it should not) and the
		// original receiver is then reused for another Read
		var p multiproof.MultiProof
		k := pick(nProofs, c.A)
		if err := p.Read(bytes.NewReader(a.ProofBytes[k])); err != nil {
			return digest("err"), true
		}
		saved := p
		if err := p.Read(bytes.NewReader(a.ProofBytes[(k+1)%nProofs])); err != nil {
			return digest("err"), true
		}
		var b1, b2 bytes.Buffer
		saved.Write(&b1)
		p.Write(&b2)
		if !bytes.Equal(b1.Bytes(), a.ProofBytes[k]) {
			return "ALIASED-RESULT", false
		}
		return digest(b1.Bytes(), b2.Bytes()), false
	case "decode-trust-sequence":
		// untrusted, trusted, untrusted decoding of the same bytes: the verdict of the untrusted
		// decoder must not depend on what was decoded before
		buf := a.NonSubgroup
		if c.Flag {
			buf = a.Buf32[pick(nElems, c.A)]
		}
		var e1, e2, e3 banderwagon.Element
		err1 := e1.SetBytes(buf)
		err2 := e2.SetBytesUnsafe(buf)
		err3 := e3.SetBytes(buf)
		var u banderwagon.Element
		var ub [64]byte
		if err2 == nil {
			ub = e2.BytesUncompressedTrusted()
		}
		err4 := u.SetBytesUncompressed(ub[:], true)
		err5 := u.SetBytesUncompressed(ub[:], false)
		return digest(err1 != nil, err2 != nil, err3 != nil, err4 != nil, err5 != nil), err1 != nil
	case "two-configs":
		// a second configuration that differs from the shared one only in Q (a by-value copy: the
		// shared configuration is not touched). What a call returns must depend on the configuration
		// it is GIVEN, not on the one that happened to be used first in this process: a proof made
		// under one Q verifies under that Q and (with overwhelming probability) not under the other.
		cfgB := *cfg
		cfgB.Q = *a.Elems[pick(nElems, c.A)]
		k := pick(nPolys, c.B)
		z := a.Scalars[3+pick(nScal-3, c.N)]
		bc := cfg.PrecomputedWeights.ComputeBarycentricCoefficients(z)
		res, _ := ipa.InnerProd(a.Polys[k], bc)
		com := *a.Commits[k]
		pA, errA := ipa.CreateIPAProof(common.NewTranscript("two"), cfg, com, a.Polys[k], z)
		pB, errB := ipa.CreateIPAProof(common.NewTranscript("two"), &cfgB, com, a.Polys[k], z)
		if errA != nil || errB != nil {
			return digest("err"), true
		}
		okAA, _ := ipa.CheckIPAProof(common.NewTranscript("two"), cfg, com, pA, z, res)
		okBB, _ := ipa.CheckIPAProof(common.NewTranscript("two"), &cfgB, com, pB, z, res)
		okAB, _ := ipa.CheckIPAProof(common.NewTranscript("two"), &cfgB, com, pA, z, res)
		okBA, _ := ipa.CheckIPAProof(common.NewTranscript("two"), cfg, com, pB, z, res)
		// the cross checks are only meaningful when the proof depends on Q at all: its first-round
		// cross terms <aR,bL>, <aL,bR> are the coefficients of Q in L_1, R_1; when both vanish (zero
		// polynomial, unit polynomial opened at another domain point) every later round may vanish
		// too and the proof is legitimately the same under every Q.
		half := len(bc) / 2
		zL, _ := ipa.InnerProd(a.Polys[k][half:], bc[:half])
		zR, _ := ipa.InnerProd(a.Polys[k][:half], bc[half:])
		sensitive := !(zL.IsZero() && zR.IsZero()) && !cfgB.Q.Equal(&cfg.Q)
		if !okAA || !okBB || (sensitive && (okAB || okBA)) {
			return "CONFIG-IGNORED", false
		}
		var b1, b2 bytes.Buffer
		pA.Write(&b1)
		pB.Write(&b2)
		return digest(b1.Bytes(), b2.Bytes()), false
	case "commit-short":
		// a vector shorter than 256 whose spare capacity reaches into the next polynomial
		k := pick(nPolys, c.A)
		n := 1 + c.N%255
		e := cfg.Commit(a.Polys[k][:n])
		return digest(e.Bytes()), false
	case "prove-twice-keep-first":
		st := a.Stmts[pick(len(a.Stmts), c.A)]
		mk := func(label string) (*multiproof.MultiProof, error) {
			return multiproof.CreateMultiProof(common.NewTranscript(label), cfg, append([]*banderwagon.Element{}, st.Cs...), append([][]fr.Element{}, st.Fs...), append([]uint8{}, st.Zs...))
		}
		p1, err := mk("first")
		if err != nil {
			return digest("err"), true
		}
		var b1 bytes.Buffer
		p1.Write(&b1)
		if _, err := mk("second"); err != nil {
			return digest("err"), true
		}
		var b1again bytes.Buffer
		p1.Write(&b1again)
		if !bytes.Equal(b1.Bytes(), b1again.Bytes()) {
			return "ALIASED-RESULT", false
		}
		return digest(b1.Bytes()), false
	case "fr-exp":
		var e fr.Element
		exps := []int{0, 1, 3, 5}
		e.Exp(a.Scalars[pick(nScal, c.A)], a.BigInts[exps[c.B%len(exps)]])
		m := fr.Modulus()
		before := new(big.Int).Set(m)
		m.Add(m, big.NewInt(12345)) // the caller may do what it likes with the returned integer
		m2 := fr.Modulus()
		return digest(e, before.Bytes(), m2.Bytes()), false
	case "results-mutate":
		// Results handed to the caller are the caller's: overwrite them. If one of them aliased
		// an internal table, the configuration / package fingerprints or a later call show it.
		w := cfg.PrecomputedWeights
		z := a.Scalars[3+pick(nScal-3, c.N)]
		bc := w.ComputeBarycentricCoefficients(z)
		q := w.DivideOnDomain(a.Zs[pick(nPolys, c.A)], a.Polys[pick(nPolys, c.B)])
		inv := fr.BatchInvert(a.Scalars[:1+c.N%nScal])
		pw := common.PowersOf(a.Scalars[pick(nScal, c.A)], 5)
		pts := ipa.GenerateRandomPoints(3)
		bs := banderwagon.ElementsToBytes(a.Elems[:2]...)
		d0 := digest(bc[0], bc[255], q[0], q[255], inv[0], pw[4], pts[0].Bytes(), pts[2].Bytes(), bs)
		var junk fr.Element
		junk.SetUint64(0xdeadbeef)
		for i := range bc {
			bc[i] = junk
		}
		for i := range q {
			q[i] = junk
		}
		for i := range inv {
			inv[i] = junk
		}
		for i := range pw {
			pw[i] = junk
		}
		for i := range pts {
			pts[i].Double(&pts[i])
		}
		for i := range bs {
			bs[i][0] ^= 0xff
		}
		return d0, false
	case "prove-mutate-result":
		st := a.Stmts[pick(len(a.Stmts), c.A)]
		// private copies of the statement lists (this call is about the RESULT object)
		p, err := multiproof.CreateMultiProof(common.NewTranscript(st.Label), cfg, append([]*banderwagon.Element{}, st.Cs...), append([][]fr.Element{}, st.Fs...), append([]uint8{}, st.Zs...))
		if err != nil {
			return digest("err"), true
		}
		var b bytes.Buffer
		p.Write(&b)
		// scribble over every part of the returned proof
		p.D.Double(&p.D)
		for i := range p.IPA.L {
			p.IPA.L[i].Add(&p.IPA.L[i], &p.D)
			p.IPA.R[i].SetIdentity()
		}
		p.IPA.A_scalar.SetOne()
		p.IPA.L = append(p.IPA.L, p.D)
		return digest(b.Bytes()), false
	case "fr-setbigint", "fr-setinterface":
		v := a.BigInts[pick(len(a.BigInts), c.A)]
		var e fr.Element
		if c.Kind == "fr-setbigint" {
			e.SetBigInt(v)
		} else if c.Flag {
			if _, err := e.SetInterface(v); err != nil {
				return digest("err"), true
			}
		} else {
			if _, err := e.SetInterface(*v); err != nil {
				return digest("err"), true
			}
		}
		return digest(e), false
	case "fail-prove-zero-commitment":
		// an un-normalisable commitment in the list: the prover must fail, and whatever it did
		// to the other commitments before failing must preserve their values
		k := pick(nPolys, c.A)
		Cs := []*banderwagon.Element{a.Commits[k], &banderwagon.Element{}, a.Commits[pick(nPolys, c.B)]}
		fs := [][]fr.Element{a.Polys[k], a.Polys[k], a.Polys[pick(nPolys, c.B)]}
		_, err := multiproof.CreateMultiProof(common.NewTranscript("z"), cfg, Cs, fs, []uint8{a.Zs[0], a.Zs[1], a.Zs[2]})
		return digest(err != nil), err != nil
	case "transcript-retain":
		// absorb private copies of caller buffers, then overwrite the copies BEFORE the
		// challenge is drawn: a transcript that kept references instead of copying would
		// produce a different challenge than the clean run
		run := func(scribble bool) fr.Element {
			lab := append([]byte{}, a.Labels[pick(nBufs, c.A)]...)
			msg := append([]byte{}, a.Buf32[pick(nElems, c.B)]...)
			sc := *a.ScalPtr[pick(nScal, c.N)]
			pt := *a.Elems[pick(nElems, c.A)]
			tr := common.NewTranscript(string(a.Labels[pick(nBufs, c.B)]))
			tr.DomainSep(lab)
			tr.AppendMessage(msg, lab)
			tr.AppendScalar(&sc, lab)
			tr.AppendPoint(&pt, lab)
			if scribble {
				for i := range lab {
					lab[i] ^= 0x5a
				}
				for i := range msg {
					msg[i] ^= 0xa5
				}
				sc = a.Scalars[3]
				pt = a.ElemVal[0]
			}
			// the challenge label is a caller buffer too, reused ("formatted into one scratch
			// slice") for the next round
			clab := append([]byte{}, a.Labels[pick(nBufs, c.N)]...)
			c1 := tr.ChallengeScalar(clab)
			if scribble {
				for i := range clab {
					clab[i] ^= 0x3c
				}
			}
			tr.AppendScalar(&c1, []byte("next"))
			dlab := append([]byte{}, a.Labels[pick(nBufs, c.A+1)]...)
			tr.DomainSep(dlab)
			if scribble {
				for i := range dlab {
					dlab[i] ^= 0x77
				}
			}
			c2 := tr.ChallengeScalar([]byte("c2"))
			var both fr.Element
			both.Add(&c1, &c2)
			return both
		}
		c1, c2 := run(false), run(true)
		if c1 != c2 {
			return "RETAINS-CALLER-BUFFER", false
		}
		return digest(c1), false
	case "prove", "fail-prove-len", "fail-prove-zero", "fail-prove-polylen":
		n := 1 + c.N%4
		var Cs []*banderwagon.Element
		var fs [][]fr.Element
		var zs []uint8
		if c.Flag || c.Kind != "prove" {
			for i := 0; i < n; i++ {
				k := pick(nPolys, c.A+i*(1+c.B%3))
				Cs = append(Cs, a.Commits[k])
				fs = append(fs, a.Polys[k])
				zs = append(zs, a.Zs[pick(nPolys, c.B+i)])
			}
		} else {
			// the caller's own opening lists, handed over as they are
			st := a.Stmts[pick(len(a.Stmts), c.A)]
			Cs, fs, zs = st.Cs, st.Fs, st.Zs
		}
		switch c.Kind {
		case "fail-prove-len":
			zs = zs[:len(zs)-1]
		case "fail-prove-zero":
			Cs, fs, zs = nil, nil, nil
		case "fail-prove-polylen":
			fs[len(fs)-1] = fs[len(fs)-1][:200]
		}
		tr := common.NewTranscript(string(a.Labels[pick(nBufs, c.B)]))
		p, err := multiproof.CreateMultiProof(tr, cfg, Cs, fs, zs)
		if err != nil {
			return digest("err"), true
		}
		var b bytes.Buffer
		p.Write(&b)
		return digest(b.Bytes()), false
	case "verify", "verify-wrong", "fail-verify-len":
		k := pick(nProofs, c.A)
		Cs := []*banderwagon.Element{a.Commits[k], a.Commits[k+1]}
		ys := a.ProofYs[k]
		zs := a.ProofZs[k] // caller-owned
		if c.Kind == "verify-wrong" {
			ys = []*fr.Element{a.ProofYs[k][1], a.ProofYs[k][0]}
			if ys[0].Equal(ys[1]) {
				ys = []*fr.Element{a.ScalPtr[0], a.ScalPtr[1]}
			}
		}
		if c.Kind == "fail-verify-len" {
			ys = ys[:1]
		}
		ok, err := multiproof.CheckMultiProof(common.NewTranscript("arena"), cfg, a.Proofs[k], Cs, ys, zs)
		return digest(ok, err), err != nil
	case "fail-verify-shape", "fail-ipa-verify-shape":
		// a structurally malformed proof object (wrong number of L/R points): must give an error
		// (private copy of the proof header; the points still alias the arena)
		k := pick(nProofs, c.A)
		bad := *a.Proofs[k]
		switch c.N % 3 {
		case 0:
			bad.IPA.L = bad.IPA.L[:7]
		case 1:
			bad.IPA.R = bad.IPA.R[:3]
		default:
			bad.IPA.L, bad.IPA.R = bad.IPA.L[:6], bad.IPA.R[:6]
		}
		if c.Kind == "fail-ipa-verify-shape" {
			ok, err := ipa.CheckIPAProof(common.NewTranscript("arena-ipa"), cfg, *a.Commits[0], bad.IPA, a.IPAEval, a.IPARes)
			return digest(ok, err), err != nil
		}
		Cs := []*banderwagon.Element{a.Commits[k], a.Commits[k+1]}
		ok, err := multiproof.CheckMultiProof(common.NewTranscript("arena"), cfg, &bad, Cs, a.ProofYs[k], a.ProofZs[k])
		return digest(ok, err), err != nil
	case "ipa-prove":
		z := a.Scalars[pick(nScal, c.A)]
		k := pick(nPolys, c.B)
		p, err := ipa.CreateIPAProof(common.NewTranscript("h-ipa"), cfg, *a.Commits[k], a.Polys[k], z)
		if err != nil {
			return digest("err"), true
		}
		var b bytes.Buffer
		p.Write(&b)
		return digest(b.Bytes()), false
	case "ipa-verify":
		res := a.IPARes
		if c.Flag {
			res = a.Scalars[pick(nScal, c.A)]
		}
		ok, err := ipa.CheckIPAProof(common.NewTranscript("arena-ipa"), cfg, *a.Commits[0], a.IPAProof, a.IPAEval, res)
		return digest(ok, err), err != nil
	case "msm-ipa", "fail-msm-len":
		n := 1 + c.N%nElems
		ns := n
		if c.Kind == "fail-msm-len" {
			ns = n + 1
		}
		e, err := ipa.MultiScalar(a.ElemVal[:n], a.Scalars[:ns])
		if err != nil {
			return digest("err"), true
		}
		return digest(e.Bytes()), false
	case "msm-bw":
		n := 1 + c.N%nElems
		var e banderwagon.Element
		e.SetIdentity()
		_, err := e.MultiExp(a.ElemVal[:n], a.Scalars[:n], banderwagon.MultiExpConfig{NbTasks: c.A % 20, ScalarsMont: c.Flag})
		return digest(e.Bytes(), err), err != nil
	case "msm-bs":
		n := 1 + c.N%nElems
		var q bandersnatch.PointProj
		_, err := bandersnatch.MultiExp(&q, a.Affine[:n], a.Scalars[:n], bandersnatch.MultiExpConfig{NbTasks: c.A % 20, ScalarsMont: c.Flag})
		return digest(q.X.Bytes(), q.Y.Bytes(), q.Z.Bytes(), err), err != nil
	case "batchnorm", "fail-batchnorm-zero":
		n := 1 + c.N%nElems
		els := append([]*banderwagon.Element{}, a.Elems[:n]...)
		if c.Flag {
			els = append(els, a.Commits[pick(nPolys, c.A)], els[0])
		}
		if c.Kind == "fail-batchnorm-zero" {
			els = append(els, &banderwagon.Element{})
		}
		err := banderwagon.BatchNormalize(els)
		return digest(err), err != nil
	case "tobytes":
		n := 1 + c.N%nElems
		return digest(banderwagon.ElementsToBytes(a.Elems[:n]...), banderwagon.BatchToBytesUncompressed(a.Elems[:n]...)), false
	case "mapfield":
		n := 1 + c.N%nElems
		outs := make([]*fr.Element, n)
		for i := range outs {
			outs[i] = new(fr.Element)
		}
		err := banderwagon.BatchMapToScalarField(outs, a.Elems[:n])
		var single fr.Element
		a.Elems[pick(nElems, c.A)].MapToScalarField(&single)
		var vals []interface{}
		for _, o := range outs {
			vals = append(vals, *o)
		}
		return digest(err, single, vals), false
	case "decode-point", "fail-decode-noncanonical":
		var e banderwagon.Element
		buf := a.Buf32[pick(nElems, c.A)]
		if c.Kind == "fail-decode-noncanonical" {
			buf = be32(new(big.Int).Add(refmodel.P, big.NewInt(int64(c.A))))
		}
		err := e.SetBytes(buf)
		if err != nil {
			return digest("reject"), true
		}
		return digest(e.Bytes()), false
	case "decode-uncompressed":
		var e banderwagon.Element
		err := e.SetBytesUncompressed(a.Buf64[pick(nElems, c.A)], c.Flag)
		if err != nil {
			return digest("reject"), true
		}
		return digest(e.Bytes()), false
	case "fr-setbytes":
		var e fr.Element
		e.SetBytes(a.BufBig[pick(nBufs, c.A)])
		return digest(e), false
	case "fr-setbytes-le":
		var e fr.Element
		e.SetBytesLE(a.BufS[pick(nBufs, c.A)])
		return digest(e), false
	case "fr-setbytes-le-canonical":
		var e fr.Element
		buf := a.BufS[pick(nBufs, c.A)]
		if c.Flag {
			buf = a.BufBad[pick(nBufs, c.A)]
		}
		_, err := e.SetBytesLECanonical(buf)
		return digest(e, err), err != nil
	case "fr-batchinvert":
		inv := fr.BatchInvert(a.Scalars[:1+c.N%nScal])
		var vals []interface{}
		for _, v := range inv {
			vals = append(vals, v)
		}
		return digest(vals), false
	case "fr-misc":
		x, y := a.Scalars[pick(nScal, c.A)], a.Scalars[pick(nScal, c.B)]
		var s, m, d, i fr.Element
		s.Add(&x, &y)
		m.Mul(&x, &y)
		d.Div(&x, &y)
		i.Inverse(&x)
		bi := x.ToBigIntRegular(new(big.Int))
		return digest(s, m, d, i, x.String(), bi.Bytes(), x.Bytes(), x.BytesLE()), false
	case "transcript":
		tr := common.NewTranscript(string(a.Labels[pick(nBufs, c.A)]))
		tr.DomainSep(a.Labels[pick(nBufs, c.B)])
		tr.AppendScalar(a.ScalPtr[pick(nScal, c.A)], a.Labels[pick(nBufs, c.N)])
		tr.AppendPoint(a.Elems[pick(nElems, c.B)], a.Labels[pick(nBufs, c.A+1)])
		tr.AppendMessage(a.Buf32[pick(nElems, c.N)], a.Labels[pick(nBufs, c.B+1)])
		c1 := tr.ChallengeScalar(a.Labels[pick(nBufs, c.N+1)])
		c2 := tr.ChallengeScalar(a.Labels[pick(nBufs, c.N+2)])
		return digest(c1, c2), false
	case "proof-write":
		var b bytes.Buffer
		err := a.Proofs[pick(nProofs, c.A)].Write(&b)
		var b2 bytes.Buffer
		err2 := a.IPAProof.Write(&b2)
		return digest(b.Bytes(), err, b2.Bytes(), err2), false
	case "proof-read", "fail-read-short":
		var p multiproof.MultiProof
		src := a.ProofBytes[pick(nProofs, c.A)]
		var err error
		if c.Kind == "fail-read-short" {
			err = p.Read(&shortReader{data: src[:c.N*9%576]})
		} else {
			err = p.Read(bytes.NewReader(src))
		}
		if err != nil {
			return digest("err"), true
		}
		return digest(p.Equal(*a.Proofs[pick(nProofs, c.A)])), false
	case "groupops":
		x, y := a.Elems[pick(nElems, c.A)], a.Elems[pick(nElems, c.B)]
		var s, d, dd, m, n banderwagon.Element
		s.Add(x, y)
		d.Sub(x, y)
		dd.Double(x)
		m.ScalarMul(x, a.ScalPtr[pick(nScal, c.N)])
		n.Neg(y)
		var cp banderwagon.Element
		cp.Set(x)
		var am banderwagon.Element
		am.AddMixed(x, a.Affine[pick(nElems, c.N)])
		return digest(s.Bytes(), d.Bytes(), dd.Bytes(), m.Bytes(), n.Bytes(), cp.Bytes(), am.Bytes(), x.Equal(y), x.IsOnCurve()), false
	case "weights":
		w := cfg.PrecomputedWeights
		idx := a.Zs[pick(nPolys, c.A)]
		switch c.N % 4 {
		case 0:
			idx = 0
		case 1:
			idx = 255
		}
		q := w.DivideOnDomain(idx, a.Polys[pick(nPolys, c.B)])
		bc := w.ComputeBarycentricCoefficients(a.Scalars[3+pick(nScal-3, c.N)])
		var vals []interface{}
		for _, v := range q {
			vals = append(vals, v)
		}
		for _, v := range bc {
			vals = append(vals, v)
		}
		return digest(vals), false
	case "innerprod":
		v, err := ipa.InnerProd(a.Polys[pick(nPolys, c.A)], a.Polys[pick(nPolys, c.B)])
		return digest(v, err), false
	case "powers":
		ps := common.PowersOf(a.Scalars[pick(nScal, c.A)], 1+c.N%20)
		var vals []interface{}
		for _, v := range ps {
			vals = append(vals, v)
		}
		return digest(vals), false
	case "precomp-point":
		pp, err := banderwagon.NewPrecompPoint(a.ElemVal[pick(nElems, c.A)], 8)
		if err != nil {
			return digest("err"), true
		}
		res := bandersnatch.IdentityExt
		pp.ScalarMul(a.Scalars[pick(nScal, c.B)], &res)
		return digest(res.X.Bytes(), res.Y.Bytes(), res.Z.Bytes()), false
	case "execute":
		sum := make([]int, 1+c.N)
		parallel.Execute(len(sum), func(s, e int) {
			for i := s; i < e; i++ {
				sum[i] = i * i
			}
		})
		t := 0
		for _, v := range sum {
			t += v
		}
		return digest(fr.Element{uint64(t)}), false
	}
	return digest("unknown"), false
}

var c13probeCalls = []C13Call{
	{Kind: "commit", A: 0}, {Kind: "prove", A: 0, B: 1, N: 1}, {Kind: "verify", A: 0}, {Kind: "msm-ipa", N: 7},
	{Kind: "decode-point", A: 2}, {Kind: "fr-setbytes", A: 1}, {Kind: "transcript", A: 1, B: 2, N: 3}, {Kind: "ipa-verify"},
}

type c13out struct {
	lazyInits     int
	class, detail string
	failedCalls   int
	fullTableHashes int
}

func (c13) Exec(plan interface{}) Result {
	p := plan.(*C13Plan)
	var res Result
	kinds := map[string]bool{}
	for _, c := range p.Calls {
		kinds[c.Kind] = true
	}
	var kl []string
	for k := range kinds {
		kl = append(kl, k)
	}
	sort.Strings(kl)
	res.Shape = fmt.Sprintf("calls=%d kinds=%d cpu=%d %x", len(p.Calls), len(kinds), p.Sim.NumCPU, mix(uint64(len(fmt.Sprint(kl)))*31+p.ArenaSeed)&0xffff)
	cfg := env.Config()
	a := buildArena(p.ArenaSeed)
	got, out := Simulate(p.Sim, 30000, func() (o c13out) {
		fail := func(class, format string, args ...interface{}) c13out {
			o.class, o.detail = class, fmt.Sprintf(format, args...)
			return o
		}
		light0, tab0 := configPrint(cfg, -1)
		o.fullTableHashes++
		glob0 := globalsPrint()
		growable := c13growable
		ap := a.print()
		raw := a.rawValues()
		check := func(i int, c C13Call, after string) (bool, c13out) {
			l, t := configPrint(cfg, i)
			_, t0s := uint64(0), uint64(0)
			_ = t0s
			if l != light0 {
				return false, fail("config-modified", "call %d (%s) %s changed the shared configuration (SRS, Q, weights or round count)", i, c.Kind, after)
			}
			_ = t
			g := globalsPrint()
			for k, v := range g {
				if glob0[k] != v {
					// private state that was empty when the history started (see growableState)
					if growable[k] {
						glob0[k] = v
						o.lazyInits++
						continue
					}
					return false, fail("global-modified", "call %d (%s) %s changed package-level variable %s", i, c.Kind, after, k)
				}
			}
			np := a.print()
			if np.strict != ap.strict {
				return false, fail("input-modified", "call %d (%s a=%d b=%d n=%d) %s modified a caller-owned input (polynomial, index, value, proof, scalar, point or byte buffer passed by reference)", i, c.Kind, c.A, c.B, c.N, after)
			}
			for k := range np.values {
				if np.values[k] != ap.values[k] {
					return false, fail("value-changed", "call %d (%s) %s changed the group element value of shared element %d", i, c.Kind, after, k)
				}
			}
			nr := a.rawValues()
			if nr != raw {
				// only the prover and BatchNormalize may change a representation
				// every call kind that goes through CreateMultiProof or BatchNormalize may re-normalise
				if !strings.Contains(c.Kind, "prove") && !strings.Contains(c.Kind, "batchnorm") {
					return false, fail("representation-changed", "call %d (%s) %s changed the representation of a shared group element although it is not a normalising call", i, c.Kind, after)
				}
				raw = nr
			}
			return true, o
		}
		// stripes of the MSM tables: remember each stripe's hash at the start
		var stripe0 [16]uint64
		for s := 0; s < 16; s++ {
			_, stripe0[s] = configPrint(cfg, s)
		}
		var probeFail *c13out
		probe := func(when string) []string {
			var ds []string
			for k, c := range c13probeCalls {
				d, _ := doCall(a, c)
				ds = append(ds, d)
				if ok, oo := check(-1-k, c, when); !ok && probeFail == nil {
					probeFail = &oo
				}
			}
			return ds
		}
		before := probe("(probe call before the history)")
		if probeFail != nil {
			return *probeFail
		}
		var first string
		var digests []string
		for i, c := range p.Calls {
			d, failed := doCall(a, c)
			digests = append(digests, d)
			if failed {
				o.failedCalls++
			}
			if d == "CONFIG-IGNORED" {
				return fail("history-dependent", "call %d (%s): proofs made and checked under two configurations that differ in Q do not behave as functions of the configuration they were given (own proof must verify, the other configuration's must not): some state was fixed by whichever configuration was used first", i, c.Kind)
			}
			if d == "ALIASED-RESULT" {
				return fail("aliased-result", "call %d (%s): a proof value copied from a receiver changed when the receiver was reused for another Read (the decoded L/R arrays are shared)", i, c.Kind)
			}
			if d == "RETAINS-CALLER-BUFFER" {
				return fail("retains-caller-buffer", "call %d (%s): the transcript's challenge changes when the caller overwrites its label/message/scalar/point buffers AFTER they were absorbed: the transcript kept a reference instead of a copy", i, c.Kind)
			}
			if i == 0 {
				first = d
			}
			if ok, oo := check(i, c, "after returning"); !ok {
				return oo
			}
			if _, t := configPrint(cfg, i); t != stripe0[i%16] {
				return fail("config-modified", "call %d (%s) changed the precomputed MSM tables (stripe %d)", i, c.Kind, i%16)
			}
		}
		// history independence
		after := probe("(probe call after the history)")
		if probeFail != nil {
			return *probeFail
		}
		for k := range before {
			if before[k] != after[k] {
				return fail("history-dependent", "probe call %s returns a different result after the history than before it", c13probeCalls[k].Kind)
			}
		}
		for k, c := range c13earlyCalls {
			if d, _ := doCall(c13earlyArena, c); d != c13earlyDigests[k] {
				return fail("history-dependent", "light probe %d (%s) returns a different result than it did as one of the first library calls of this process: some earlier call of another kind left state behind", k, c.Kind)
			}
		}
		if len(p.Calls) > 0 {
			d, _ := doCall(a, p.Calls[0])
			if d != first {
				return fail("history-dependent", "call 0 (%s) repeated at the end of the history returns a different result", p.Calls[0].Kind)
			}
		}
		// every call of the history once more, in reverse order: the same call on the same
		// (unchanged) arguments must return the same result wherever it sits in a history
		for i := len(p.Calls) - 1; i >= 0 && i >= len(p.Calls)-14; i-- {
			d, _ := doCall(a, p.Calls[i])
			if d != digests[i] {
				return fail("history-dependent", "call %d (%s a=%d b=%d n=%d) returns a different result when repeated after the rest of the history", i, p.Calls[i].Kind, p.Calls[i].A, p.Calls[i].B, p.Calls[i].N)
			}
		}
		l1, t1 := configPrint(cfg, -1)
		o.fullTableHashes++
		if l1 != light0 || t1 != tab0 {
			return fail("config-modified", "the configuration (all %d MB of tables included) differs after the history", 350)
		}
		return o
	})
	res.absorb(out)
	if res.Class != "" || res.Infra != "" {
		return res
	}
	if got.failedCalls > 0 {
		res.fault("failing-call")
		res.Faults["failing-call"] += got.failedCalls - 1
	}
	if got.class != "" {
		return mergeViolation(res, got.class, "%s", got.detail)
	}
	if got.lazyInits > 0 {
		res.note("private-package-state-change-tolerated")
	}
	res.Nontrivial = true
	res.OK = true
	return res
}

func (c13) Shrink(plan interface{}) []interface{} {
	p := plan.(*C13Plan)
	var out []interface{}
	cp := func() *C13Plan {
		q := *p
		q.Calls = append([]C13Call{}, p.Calls...)
		return &q
	}
	n := len(p.Calls)
	if n > 1 {
		q := cp()
		q.Calls = q.Calls[:n/2]
		out = append(out, q)
		q = cp()
		q.Calls = q.Calls[n/2:]
		out = append(out, q)
	}
	if n > 1 && n <= 16 {
		for k := 0; k < n; k++ {
			q := cp()
			q.Calls = append(q.Calls[:k], q.Calls[k+1:]...)
			out = append(out, q)
		}
	}
	for k, c := range p.Calls {
		if c.A != 0 || c.B != 0 || c.N != 0 {
			q := cp()
			q.Calls[k].A, q.Calls[k].B, q.Calls[k].N = 0, 0, 0
			out = append(out, q)
		}
	}
	for _, sc := range shrinkSim(p.Sim) {
		q := cp()
		q.Sim = sc
		out = append(out, q)
	}
	return out
}
