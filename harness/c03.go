package harness

import (
	"bytes"
	"encoding/json"
	"fmt"
	"math/big"

	multiproof "github.com/crate-crypto/go-ipa"
	"github.com/crate-crypto/go-ipa/bandersnatch/fr"
	"github.com/crate-crypto/go-ipa/banderwagon"
	"github.com/crate-crypto/go-ipa/common"
	"github.com/crate-crypto/go-ipa/ipa"
	"verif/refmodel"
)

// C03 — proof bytes are a deterministic, spec-conformant function of the inputs:
// identical across CPU counts, schedules, representations and call histories,
// and identical to the independent reference prover.

type C03Config struct {
	Sim      SimCfg `json:"sim"`
	ReprSeed uint64 `json:"repr_seed"` // re-draws the representation of every commitment
	History  int    `json:"history"`   // number of unrelated calls made before proving, in the same process/simulation
	HistSeed uint64 `json:"hist_seed"`
}

// trPrefix puts a transcript that is NOT fresh in front of the prover: some messages and
// challenges already went through it (one transcript used for several proofs in a row). The
// proof must be the specified function of that state: the reference transcript gets the same
// prefix.
func trPrefixLib(tr *common.Transcript, n int, seed uint64) {
	r := NewRng(seed, n, "trprefix")
	for i := 0; i < n; i++ {
		s := FrFromBig(r.Scalar())
		tr.AppendScalar(&s, []byte("pre"))
		if r.Bool() {
			tr.ChallengeScalar([]byte("prec"))
		}
	}
}

func trPrefixRef(tr *refmodel.Transcript, n int, seed uint64) {
	r := NewRng(seed, n, "trprefix")
	for i := 0; i < n; i++ {
		tr.AppendScalar(r.Scalar(), []byte("pre"))
		if r.Bool() {
			tr.ChallengeScalar([]byte("prec"))
		}
	}
}

type C03Plan struct {
	Kind     string      `json:"kind"` // multi | ipa
	Set      OpeningSet  `json:"set"`
	IPAPoly  PolySpec    `json:"ipa_poly"`
	IPAEval  string      `json:"ipa_eval"` // in | out | edge
	IPASeed  uint64      `json:"ipa_seed"`
	TrPrefix int         `json:"transcript_prefix_ops,omitempty"` // operations already performed on the transcript handed to the prover
	Configs  []C03Config `json:"configs"`
}

type c03 struct{}

func init() { register("C03", c03{}) }

func (c03) Prepare(string) { env.Config(); refmodel.CRS(); env.Pool() }

func (c03) Gen(seed uint64, run int, tier, variant string) interface{} {
	r := NewRng(seed, run, "C03")
	var p C03Plan
	p.Kind = "multi"
	if r.Chance(20) {
		p.Kind = "ipa"
	}
	n := 1
	switch r.Intn(8) {
	case 0:
		n = 1 + r.Intn(3)
	case 1, 2, 3, 4:
		n = 1 + r.Intn(32)
	case 5:
		n = 33 + r.Intn(100)
	default:
		n = 1 + r.Intn(300) // crosses the 1024-byte transcript buffer and >= 3 worker batches
	}
	p.Set = GenOpeningSet(r, n, 5)
	p.IPAPoly = PolySpec{Kind: polyKinds[r.Intn(len(polyKinds))], Seed: r.U64()}
	p.IPAEval = []string{"in", "out", "edge", "edge"}[r.Intn(4)]
	p.IPASeed = r.U64()
	if r.Chance(20) {
		p.TrPrefix = 1 + r.Intn(6)
	}
	k := 4
	if tier == "thorough" {
		k = 6
	}
	for i := 0; i < k; i++ {
		c := C03Config{Sim: GenSimCfg(r, n, 300), ReprSeed: r.U64(), HistSeed: r.U64()}
		if i > 0 {
			c.History = r.Intn(4)
		}
		p.Configs = append(p.Configs, c)
	}
	// make sure very different CPU counts meet the same opening set
	p.Configs[0].Sim.NumCPU = 1
	p.Configs[1].Sim.NumCPU = r.Pick([]int{16, 17, 64, 128})
	return &p
}

func (c03) Decode(raw json.RawMessage) (interface{}, error) {
	var p C03Plan
	err := json.Unmarshal(raw, &p)
	return &p, err
}

func (c03) Sched(plan interface{}) []*SimCfg {
	p := plan.(*C03Plan)
	var out []*SimCfg
	for i := range p.Configs {
		out = append(out, &p.Configs[i].Sim)
	}
	return out
}

func (p *C03Plan) evalPoint() *big.Int {
	r := NewRng(p.IPASeed, 0, "evalpoint")
	switch p.IPAEval {
	case "in":
		return big.NewInt(int64(r.Intn(256)))
	case "edge":
		two := func(k uint, j int64) *big.Int { return new(big.Int).Add(new(big.Int).Lsh(bigOne, k), big.NewInt(j)) }
		// the in-domain / out-of-domain decision must look at the whole field element:
		// points whose low limb (or low bits) look like a domain index are the boundary class
		c := []*big.Int{big.NewInt(0), big.NewInt(254), big.NewInt(255), big.NewInt(256), big.NewInt(257), new(big.Int).Sub(refmodel.R, bigOne),
			two(64, 0), two(64, 3), two(64, 255), two(64, 256), two(128, 17), two(200, 254), two(8, 0), two(32, 5), two(192, 1),
			new(big.Int).Sub(refmodel.R, big.NewInt(256)), new(big.Int).Rsh(refmodel.R, 1)}
		return c[r.Intn(len(c))]
	}
	return r.Scalar()
}

// history makes unrelated calls (inside the simulation, before the call under
// test): they must not influence the bytes produced afterwards.
func history(n int, seed uint64) {
	cfg := env.Config()
	r := NewRng(seed, n, "history")
	_, poolP := env.Pool()
	for i := 0; i < n; i++ {
		switch r.Intn(4) {
		case 0:
			f := make([]fr.Element, 256)
			for j := 0; j < 256; j += 1 + r.Intn(40) {
				f[j] = FrFromBig(r.Scalar())
			}
			cfg.Commit(f)
		case 1:
			k := 1 + r.Intn(20)
			pts := make([]banderwagon.Element, k)
			sc := make([]fr.Element, k)
			for j := range pts {
				pts[j] = ElemFromRef(poolP[r.Intn(poolSize)], Repr(r.Intn(int(NumReprs))), r.Scalar())
				sc[j] = FrFromBig(r.Scalar())
			}
			ipa.MultiScalar(pts, sc)
		case 2:
			f := make([]fr.Element, 256)
			f[r.Intn(256)] = FrFromBig(r.Scalar())
			c := cfg.Commit(f)
			tr := common.NewTranscript("history")
			multiproof.CreateMultiProof(tr, cfg, []*banderwagon.Element{&c}, [][]fr.Element{f}, []uint8{uint8(r.Intn(256))})
		case 3:
			tr := common.NewTranscript("h")
			s := FrFromBig(r.Scalar())
			tr.AppendScalar(&s, []byte("x"))
			tr.ChallengeScalar([]byte("c"))
			var e fr.Element
			b := s.BytesLE()
			e.SetBytesLE(append([]byte{}, b[:]...))
			_ = e.String()
		}
	}
}

func (c03) Exec(plan interface{}) Result {
	p := plan.(*C03Plan)
	var res Result
	cfg := env.Config()
	if p.Kind == "ipa" {
		return c03ipa(p)
	}
	res.Shape = "multi " + p.Set.shape()
	o0, err := Materialise(&p.Set)
	if err != nil {
		res.Infra = err.Error()
		return res
	}
	// reference proof
	var refCs []refmodel.Point
	var refFs [][]*big.Int
	for _, op := range p.Set.Ops {
		refCs = append(refCs, o0.ComRef[op.Poly])
		refFs = append(refFs, o0.PolyBig[op.Poly])
	}
	rtr := refmodel.NewTranscript(p.Set.Label)
	trPrefixRef(rtr, p.TrPrefix, p.IPASeed)
	rproof, rerr := refmodel.MultiProve(rtr, refCs, refFs, o0.Zs)
	if rerr != nil {
		res.Infra = "reference prover: " + rerr.Error()
		return res
	}
	want := rproof.Bytes()
	wantNext := rtr.ChallengeScalar([]byte("next"))
	_ = cfg
	var first []byte
	for ci, c := range p.Configs {
		set := p.Set
		set.Ops = append([]OpeningSpec{}, p.Set.Ops...)
		rr := NewRng(c.ReprSeed, ci, "reprs")
		for i := range set.Ops {
			set.Ops[i].Repr = Repr(rr.Intn(int(NumReprs)))
		}
		set.LamSeed = rr.U64()
		o, err := Materialise(&set)
		if err != nil {
			res.Infra = err.Error()
			return res
		}
		po, out := Simulate(c.Sim, 20000, func() (po proveOut) {
			history(c.History, c.HistSeed)
			tr := common.NewTranscript(set.Label)
			trPrefixLib(tr, p.TrPrefix, p.IPASeed)
			proof, err := multiproof.CreateMultiProof(tr, env.Config(), o.Cs, o.Fs, o.Zs)
			po.err = err
			if err != nil {
				return
			}
			var buf bytes.Buffer
			po.werr = proof.Write(&buf)
			po.bytes = buf.Bytes()
			po.next = tr.ChallengeScalar([]byte("next"))
			return
		})
		res.absorb(out)
		if res.Class != "" || res.Infra != "" {
			res.Detail = fmt.Sprintf("config %d: %s", ci, res.Detail)
			return res
		}
		if c.History > 0 {
			res.fault("history-prefix")
		}
		if po.err != nil || po.werr != nil {
			return mergeViolation(res, "prover-error", "config %d: CreateMultiProof/Write failed: %v %v", ci, po.err, po.werr)
		}
		if first == nil {
			first = po.bytes
		} else if !bytes.Equal(first, po.bytes) {
			return mergeViolation(res, "nondeterministic-bytes", "proof bytes differ between config 0 (cpu=%d, %s) and config %d (cpu=%d, %s, history=%d) at byte %d", p.Configs[0].Sim.NumCPU, p.Configs[0].Sim.Policy, ci, c.Sim.NumCPU, c.Sim.Policy, c.History, firstDiff(first, po.bytes))
		}
		if !bytes.Equal(po.bytes, want) {
			return mergeViolation(res, "spec-mismatch", "proof bytes (config %d, cpu=%d) differ from the reference prover at byte %d (field %d) for %d openings", ci, c.Sim.NumCPU, firstDiff(po.bytes, want), firstDiff(po.bytes, want)/32, len(set.Ops))
		}
		if FrToBig(po.next).Cmp(wantNext) != 0 {
			return mergeViolation(res, "transcript-mismatch", "transcript state after proving differs from the reference transcript (config %d)", ci)
		}
	}
	res.OK = true
	return res
}

func firstDiff(a, b []byte) int {
	for i := 0; i < len(a) && i < len(b); i++ {
		if a[i] != b[i] {
			return i
		}
	}
	if len(a) != len(b) {
		if len(a) < len(b) {
			return len(a)
		}
		return len(b)
	}
	return -1
}

func c03ipa(p *C03Plan) Result {
	var res Result
	res.Shape = fmt.Sprintf("ipa poly=%s eval=%s", p.IPAPoly.Kind, p.IPAEval)
	cfg := env.Config()
	fb := genPoly(p.IPAPoly)
	ff := make([]fr.Element, 256)
	for i := range ff {
		ff[i] = FrFromBig(fb[i])
	}
	com := cfg.Commit(ff)
	comRef, ok := RefFromElem(&com)
	if !ok {
		res.Infra = "Commit returned Z=0"
		return res
	}
	z := p.evalPoint()
	rtr := refmodel.NewTranscript("ipa-c03")
	trPrefixRef(rtr, p.TrPrefix, p.IPASeed)
	rp := refmodel.IPAProve(rtr, comRef, fb, z)
	want := rp.Bytes()
	wantNext := rtr.ChallengeScalar([]byte("next"))
	var first []byte
	for ci, c := range p.Configs {
		rr := NewRng(c.ReprSeed, ci, "reprs")
		ce := ElemFromRef(comRef, Repr(rr.Intn(int(NumReprs))), rr.Scalar())
		a := append([]fr.Element{}, ff...)
		po, out := Simulate(c.Sim, 20000, func() (po proveOut) {
			history(c.History, c.HistSeed)
			tr := common.NewTranscript("ipa-c03")
			trPrefixLib(tr, p.TrPrefix, p.IPASeed)
			proof, err := ipa.CreateIPAProof(tr, cfg, ce, a, FrFromBig(z))
			po.err = err
			if err != nil {
				return
			}
			var buf bytes.Buffer
			po.werr = proof.Write(&buf)
			po.bytes = buf.Bytes()
			po.next = tr.ChallengeScalar([]byte("next"))
			return
		})
		res.absorb(out)
		if res.Class != "" || res.Infra != "" {
			return res
		}
		if po.err != nil || po.werr != nil {
			return mergeViolation(res, "prover-error", "config %d: CreateIPAProof/Write failed: %v %v", ci, po.err, po.werr)
		}
		if first == nil {
			first = po.bytes
		} else if !bytes.Equal(first, po.bytes) {
			return mergeViolation(res, "nondeterministic-bytes", "IPA proof bytes differ between config 0 and config %d (cpu=%d)", ci, c.Sim.NumCPU)
		}
		if !bytes.Equal(po.bytes, want) {
			return mergeViolation(res, "spec-mismatch", "IPA proof bytes (config %d) differ from the reference prover at byte %d, eval point %s", ci, firstDiff(po.bytes, want), z.String())
		}
		if FrToBig(po.next).Cmp(wantNext) != 0 {
			return mergeViolation(res, "transcript-mismatch", "transcript after CreateIPAProof differs from the reference (config %d)", ci)
		}
		for i := range a {
			if a[i] != ff[i] {
				return mergeViolation(res, "input-modified", "CreateIPAProof modified coefficient %d of its input polynomial", i)
			}
		}
	}
	res.OK = true
	return res
}

func (c03) Shrink(plan interface{}) []interface{} {
	p := plan.(*C03Plan)
	var out []interface{}
	cp := func() *C03Plan {
		q := *p
		q.Configs = append([]C03Config{}, p.Configs...)
		return &q
	}
	// fewer configurations (keep at least one; two for the determinism class)
	if len(p.Configs) > 1 {
		for k := range p.Configs {
			q := cp()
			q.Configs = append(q.Configs[:k], q.Configs[k+1:]...)
			out = append(out, q)
		}
	}
	if p.Kind == "multi" {
		for _, s := range shrinkSet(&p.Set) {
			q := cp()
			q.Set = s
			out = append(out, q)
		}
	}
	for i, c := range p.Configs {
		if c.History > 0 {
			q := cp()
			q.Configs[i].History = 0
			out = append(out, q)
		}
		for _, sc := range shrinkSim(c.Sim) {
			q := cp()
			q.Configs[i].Sim = sc
			out = append(out, q)
		}
	}
	return out
}
