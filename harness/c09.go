package harness

import (
	"encoding/json"
	"fmt"
	"math/big"

	"github.com/crate-crypto/go-ipa/bandersnatch"
	"github.com/crate-crypto/go-ipa/bandersnatch/fr"
	"github.com/crate-crypto/go-ipa/banderwagon"
	"github.com/crate-crypto/go-ipa/ipa"
	"verif/refmodel"
)

// C09 — variable-base MSM is correct and terminates for every size, task-count
// setting, window/split choice and schedule.

type C09Plan struct {
	API       string `json:"api"` // bw | ipa | bs | bsaff | inner
	N         int    `json:"n"`
	NbTasks   int    `json:"nbtasks"`
	Mont      bool   `json:"scalars_mont"`
	C         int    `json:"c,omitempty"`     // inner: window width
	Split     int    `json:"split,omitempty"` // inner: -1 as MultiExp decides, 0 no, 1 yes
	ScalarMix string `json:"scalar_mix"`
	ScalarSeed uint64 `json:"scalar_seed"`
	PointMix  string `json:"point_mix"`
	PointSeed uint64 `json:"point_seed"`
	LenDelta  int    `json:"len_delta,omitempty"` // len(scalars)-len(points): mismatch must give an error
	Warm      bool   `json:"warm,omitempty"`      // an earlier call (same points, other non-zero scalars) precedes the call under test in the same simulation
	Sim       SimCfg `json:"sim"`
}

type c09 struct{}

func init() { register("C09", c09{}) }

func (c09) Prepare(string) { env.Pool() }

var scalarMixes = []string{"random", "random", "small10", "small9", "zeros", "edge", "carry", "allsame", "u64", "complement"}
var pointMixes = []string{"pool", "pool", "dups", "negpairs", "identity", "reprs", "one"}
var innerCs = []int{4, 5, 6, 7, 8, 9, 10, 11, 12, 13, 14, 15, 16}

func (c09) Gen(seed uint64, run int, tier, variant string) interface{} {
	r := NewRng(seed, run, "C09")
	var p C09Plan
	maxN := 4096
	if tier == "thorough" {
		maxN = 1 << 16
	}
	switch r.Intn(10) {
	case 0, 1, 2:
		p.N = r.Intn(41)
	case 3:
		p.N = r.Pick([]int{0, 1, 2, 3, 63, 64, 65, 127, 128, 129, 255, 256, 257})
	default:
		p.N = r.LogUniform(maxN)
	}
	apis := []string{"bw", "bw", "ipa", "bs", "bsaff"}
	if haveOverlay {
		apis = append(apis, "inner", "inner", "inner")
	}
	p.API = apis[r.Intn(len(apis))]
	if variant == "bigc" {
		p.API = "inner"
		p.C = r.Pick([]int{20, 21, 22})
		p.N = r.Intn(200)
	}
	switch r.Intn(8) {
	case 0:
		p.NbTasks = r.Pick([]int{-1, 0})
	case 1:
		p.NbTasks = r.Pick([]int{1, 2, 3})
	case 2:
		p.NbTasks = p.N + r.Pick([]int{-1, 0, 1})
		if p.NbTasks > 1024 {
			p.NbTasks = 1024 // the property quantifies over NbTasks <= 1024 (and each split spawns up to 64 goroutines)
		}
	case 3:
		p.NbTasks = r.Pick([]int{63, 64, 65, 1024})
	default:
		p.NbTasks = r.LogUniform(1024)
	}
	p.Mont = r.Bool()
	if p.API == "inner" {
		if p.C == 0 {
			p.C = innerCs[r.Intn(len(innerCs))]
		}
		p.Split = r.Pick([]int{-1, 0, 1})
		if p.NbTasks < 1 {
			p.NbTasks = 1
		}
		if p.C >= 13 && p.N > 2048 {
			p.N = r.Intn(2048)
		}
	}
	if p.API == "ipa" {
		p.Mont = true
	}
	p.ScalarMix = scalarMixes[r.Intn(len(scalarMixes))]
	p.ScalarSeed = r.U64()
	p.PointMix = pointMixes[r.Intn(len(pointMixes))]
	p.PointSeed = r.U64()
	if r.Chance(4) {
		p.LenDelta = r.Pick([]int{-1, 1, 2})
		if p.N+p.LenDelta < 0 {
			p.LenDelta = 1
		}
	}
	p.Warm = r.Chance(25)
	maxCPU := 300
	if p.N > 1024 {
		maxCPU = 64
	}
	p.Sim = GenSimCfg(r, p.N, maxCPU)
	return &p
}

func (c09) Decode(raw json.RawMessage) (interface{}, error) {
	var p C09Plan
	err := json.Unmarshal(raw, &p)
	return &p, err
}

func (c09) Sched(plan interface{}) []*SimCfg { return []*SimCfg{&plan.(*C09Plan).Sim} }

var bigOne = big.NewInt(1)

func genScalarClass(r *Rng, class int) *big.Int {
	R := refmodel.R
	switch class {
	case 1:
		return new(big.Int)
	case 2:
		return big.NewInt(1)
	case 3:
		return big.NewInt(2)
	case 4:
		return new(big.Int).Sub(R, bigOne)
	case 5:
		return new(big.Int).Sub(R, big.NewInt(2))
	case 6:
		return new(big.Int).Lsh(bigOne, uint(r.Intn(253)))
	case 7:
		x := new(big.Int).Lsh(bigOne, uint(1+r.Intn(253)))
		x.Sub(x, bigOne)
		return x.Mod(x, R)
	case 8:
		return big.NewInt(int64(1 + r.Intn(15)))
	case 9:
		// every w-bit window equals 2^(w-1): maximal carry chains in the signed-digit recoding
		w := uint(4 + r.Intn(13))
		x := new(big.Int)
		for sh := uint(0); sh+w <= 252; sh += w {
			x.SetBit(x, int(sh+w-1), 1)
		}
		return x.Mod(x, R)
	case 10:
		// every w-bit window all ones
		x := new(big.Int).Lsh(bigOne, uint(200+r.Intn(53)))
		x.Sub(x, bigOne)
		return x.Mod(x, R)
	case 11:
		return new(big.Int).SetUint64(r.U64())
	case 12:
		x := new(big.Int).SetUint64(r.U64())
		return x.Lsh(x, uint(64*r.Intn(3)+r.Intn(60))).Mod(x, R)
	case 13:
		// look-alikes of special values in the OTHER representation: the integer whose limbs equal
		// the Montgomery form of 1 (2^256 mod r), of 2, its square, and the integers whose
		// Montgomery form has the limbs of 1, 2 (R^-1, 2*R^-1)
		two256 := new(big.Int).Lsh(bigOne, 256)
		rinv := new(big.Int).ModInverse(two256, R)
		c := []*big.Int{
			new(big.Int).Mod(two256, R),
			new(big.Int).Mod(new(big.Int).Lsh(bigOne, 257), R),
			new(big.Int).Mod(new(big.Int).Mul(two256, two256), R),
			rinv,
			new(big.Int).Mod(new(big.Int).Lsh(rinv, 1), R),
			new(big.Int).Mod(new(big.Int).Neg(new(big.Int).Mod(two256, R)), R),
		}
		return c[r.Intn(len(c))]
	}
	return r.Scalar()
}

func genScalars(mix string, seed uint64, n int) []*big.Int {
	r := NewRng(seed, n, "scalars:"+mix)
	out := make([]*big.Int, n)
	same := genScalarClass(r, r.Intn(14))
	for i := range out {
		switch mix {
		case "small10":
			if i%8 == 0 || r.Chance(3) { // >= 12.5 %
				out[i] = genScalarClass(r, 8)
			} else {
				out[i] = r.Scalar()
			}
		case "small9":
			if i%11 == 10 { // just under 10 %
				out[i] = genScalarClass(r, 8)
			} else {
				out[i] = r.Scalar()
			}
		case "zeros":
			if r.Chance(60) {
				out[i] = new(big.Int)
			} else {
				out[i] = genScalarClass(r, r.Intn(14))
			}
		case "edge":
			out[i] = genScalarClass(r, r.Intn(14))
		case "carry":
			out[i] = genScalarClass(r, r.Pick([]int{9, 9, 10, 7, 4}))
		case "complement":
			// pairs (s, r-s): with duplicated points the sum cancels to the identity
			if i%2 == 1 {
				out[i] = new(big.Int).Mod(new(big.Int).Sub(refmodel.R, out[i-1]), refmodel.R)
			} else {
				out[i] = genScalarClass(r, r.Pick([]int{0, 0, 8, 11, 4}))
			}
		case "allsame":
			out[i] = same
		case "u64":
			out[i] = genScalarClass(r, r.Pick([]int{11, 8, 1}))
		default:
			out[i] = r.Scalar()
		}
	}
	return out
}

type c09point struct {
	idx  int  // pool index, -1 = identity
	neg  bool // use -P
	repr Repr
}

func genPoints(mix string, seed uint64, n int, allowRepr bool) []c09point {
	r := NewRng(seed, n, "points:"+mix)
	out := make([]c09point, n)
	few := 1 + r.Intn(4)
	for i := range out {
		p := c09point{idx: r.Intn(poolSize)}
		switch mix {
		case "dups":
			p.idx = r.Intn(few)
		case "negpairs":
			p.idx = (i / 2) % poolSize
			p.neg = i%2 == 1
		case "identity":
			if r.Chance(30) {
				p.idx = -1
			}
		case "reprs":
			if allowRepr {
				p.repr = Repr(r.Intn(int(NumReprs)))
			}
			if r.Chance(10) {
				p.idx = -1
			}
		case "one":
			p.idx = 7
		}
		out[i] = p
	}
	return out
}

type c09out struct {
	err    error
	ref    refmodel.Point
	refOK  bool
	class  bool // compare as Banderwagon class (true) or exact curve point (false)
	panicV interface{}
}

func (c09) Exec(plan interface{}) Result {
	p := plan.(*C09Plan)
	var res Result
	nb := "nb=" + bucket(p.NbTasks)
	res.Shape = fmt.Sprintf("%s n=%s %s mont=%v c=%d split=%d smix=%s pmix=%s cpu=%d", p.API, bucket(p.N), nb, p.Mont, p.C, p.Split, p.ScalarMix, p.PointMix, p.Sim.NumCPU)
	poolK, poolP := env.Pool()
	n := p.N
	ns := n + p.LenDelta
	if p.API == "inner" {
		ns = n // the internal entry point has no length check
	}
	scal := genScalars(p.ScalarMix, p.ScalarSeed, ns)
	bwLevel := p.API == "bw" || p.API == "ipa"
	pts := genPoints(p.PointMix, p.PointSeed, n, bwLevel)

	// expected = (sum s_i * k_i) * G, by the reference model
	acc := new(big.Int)
	for i := 0; i < n && i < ns; i++ {
		if pts[i].idx < 0 {
			continue
		}
		t := new(big.Int).Mul(scal[i], poolK[pts[i].idx])
		if pts[i].neg {
			acc.Sub(acc, t)
		} else {
			acc.Add(acc, t)
		}
	}
	acc.Mod(acc, refmodel.R)
	want := refmodel.Generator().Mul(acc)

	// inputs for the library, built limb by limb
	libScal := make([]fr.Element, ns)
	for i, s := range scal {
		if p.Mont {
			libScal[i] = FrFromBig(s)
		} else {
			libScal[i] = FrRegular(s)
		}
	}
	scalCopy := append([]fr.Element(nil), libScal...)
	refPt := func(q c09point) refmodel.Point {
		if q.idx < 0 {
			return refmodel.Identity()
		}
		if q.neg {
			return poolP[q.idx].Neg()
		}
		return poolP[q.idx]
	}
	var bwPts []banderwagon.Element
	var affPts []bandersnatch.PointAffine
	lam := NewRng(p.PointSeed, n, "lambda")
	if bwLevel {
		bwPts = make([]banderwagon.Element, n)
		for i, q := range pts {
			bwPts[i] = ElemFromRef(refPt(q), q.repr, lam.Scalar())
		}
	} else {
		affPts = make([]bandersnatch.PointAffine, n)
		for i, q := range pts {
			affPts[i] = AffineFromRef(refPt(q))
		}
	}
	bwCopy := append([]banderwagon.Element(nil), bwPts...)
	affCopy := append([]bandersnatch.PointAffine(nil), affPts...)

	// the result must not depend on what an earlier call left behind (recycled buffers, cached
	// tables): with Warm the same entry point runs first on the same points with other, non-zero
	// scalars, inside the same simulation and therefore with the same simulated sync.Pool.
	var warmScal []fr.Element
	stepCap := 2000 + 4*n
	if p.Warm {
		stepCap *= 2
		wr := NewRng(p.ScalarSeed, ns, "warm")
		warmScal = make([]fr.Element, ns)
		for i := range warmScal {
			w := wr.Scalar()
			if w.Sign() == 0 {
				w = big.NewInt(1)
			}
			if p.Mont {
				warmScal[i] = FrFromBig(w)
			} else {
				warmScal[i] = FrRegular(w)
			}
		}
	}
	call := func(libScal []fr.Element) (o c09out) {
		switch p.API {
		case "bw":
			var e banderwagon.Element
			e.SetIdentity()
			r, err := e.MultiExp(bwPts, libScal, banderwagon.MultiExpConfig{NbTasks: p.NbTasks, ScalarsMont: p.Mont})
			o.err = err
			if err == nil {
				o.ref, o.refOK = RefFromElem(r)
			}
			o.class = true
		case "ipa":
			e, err := ipa.MultiScalar(bwPts, libScal)
			o.err = err
			if err == nil {
				o.ref, o.refOK = RefFromElem(&e)
			}
			o.class = true
		case "bs":
			var q bandersnatch.PointProj
			_, err := bandersnatch.MultiExp(&q, affPts, libScal, bandersnatch.MultiExpConfig{NbTasks: p.NbTasks, ScalarsMont: p.Mont})
			o.err = err
			if err == nil {
				o.ref, o.refOK = RefFromProj(&q)
			}
		case "bsaff":
			a, err := bandersnatch.MultiExpAffine(affPts, libScal, bandersnatch.MultiExpConfig{NbTasks: p.NbTasks, ScalarsMont: p.Mont})
			o.err = err
			if err == nil {
				o.ref, o.refOK = refmodel.FromAffine(FpToBig(a.X), FpToBig(a.Y)), true
			}
		case "inner":
			var q bandersnatch.PointProj
			innerMSM(&q, p.C, affPts, libScal, p.Mont, p.NbTasks, p.Split)
			o.ref, o.refOK = RefFromProj(&q)
		}
		return
	}
	got, out := Simulate(p.Sim, stepCap, func() c09out {
		if p.Warm {
			call(warmScal)
		}
		return call(libScal)
	})
	res.absorb(out)
	if res.Class != "" || res.Infra != "" {
		return res
	}
	if p.LenDelta != 0 && p.API != "inner" {
		res.fault("length-mismatch")
		if got.err == nil {
			return mergeViolation(res, "mismatch-accepted", "%s with %d points and %d scalars returned no error", p.API, n, ns)
		}
		res.OK = true
		return res
	}
	if got.err != nil {
		return mergeViolation(res, "unexpected-error", "%s(n=%d) returned error %v", p.API, n, got.err)
	}
	if !got.refOK {
		return mergeViolation(res, "bad-result", "%s(n=%d) returned a point with Z=0", p.API, n)
	}
	if got.class {
		ge, we := got.ref.Encode(), want.Encode()
		if ge != we || !got.ref.IsOnCurve() {
			return mergeViolation(res, "wrong-sum", "%s(n=%d, nbtasks=%d, mont=%v, cpu=%d): result %x != reference sum %x", p.API, n, p.NbTasks, p.Mont, p.Sim.NumCPU, ge, we)
		}
	} else {
		gx, gy := got.ref.Affine()
		wx, wy := want.Affine()
		if gx.Cmp(wx) != 0 || gy.Cmp(wy) != 0 {
			return mergeViolation(res, "wrong-sum", "%s(n=%d, nbtasks=%d, mont=%v, c=%d, split=%d, cpu=%d): result (%x,%x) != reference sum (%x,%x)", p.API, n, p.NbTasks, p.Mont, p.C, p.Split, p.Sim.NumCPU, gx, gy, wx, wy)
		}
	}
	// inputs must not have been modified (cheap here; C13 does this in depth)
	for i := range libScal {
		if libScal[i] != scalCopy[i] {
			return mergeViolation(res, "input-modified", "%s modified scalar %d of its input", p.API, i)
		}
	}
	for i := range bwPts {
		if elemRaw(&bwPts[i]) != elemRaw(&bwCopy[i]) {
			return mergeViolation(res, "input-modified", "%s modified point %d of its input", p.API, i)
		}
	}
	for i := range affPts {
		if affPts[i] != affCopy[i] {
			return mergeViolation(res, "input-modified", "%s modified point %d of its input", p.API, i)
		}
	}
	if n == 0 {
		res.note("empty")
	}
	if p.Warm {
		res.note("preceded by another call")
	}
	if p.API == "inner" {
		res.note(fmt.Sprintf("inner c=%d split=%d", p.C, p.Split))
	}
	res.OK = true
	return res
}

func bucket(n int) string {
	switch {
	case n <= 0:
		return fmt.Sprint(n)
	case n <= 40:
		return fmt.Sprint(n)
	}
	b := 0
	for (1 << uint(b+1)) <= n {
		b++
	}
	return fmt.Sprintf("2^%d..", b)
}

func (c09) Shrink(plan interface{}) []interface{} {
	p := plan.(*C09Plan)
	var out []interface{}
	add := func(f func(q *C09Plan)) {
		q := *p
		if p.Sim.Choices != nil {
			q.Sim.Choices = append([]int32{}, p.Sim.Choices...)
		}
		f(&q)
		out = append(out, &q)
	}
	for _, n := range []int{0, 1, 2, 3, p.N / 2, p.N - 1} {
		if n >= 0 && n < p.N {
			n := n
			add(func(q *C09Plan) { q.N = n })
		}
	}
	if p.Warm {
		add(func(q *C09Plan) { q.Warm = false })
	}
	if p.ScalarMix != "random" {
		add(func(q *C09Plan) { q.ScalarMix = "random" })
	}
	if p.PointMix != "pool" {
		add(func(q *C09Plan) { q.PointMix = "pool" })
	}
	for _, t := range []int{1, 2, p.NbTasks / 2} {
		if t >= 1 && t < p.NbTasks {
			t := t
			add(func(q *C09Plan) { q.NbTasks = t })
		}
	}
	for _, c := range []int{1, 2, p.Sim.NumCPU / 2} {
		if c >= 1 && c < p.Sim.NumCPU {
			c := c
			add(func(q *C09Plan) { q.Sim.NumCPU = c })
		}
	}
	if p.Sim.Policy != "fifo" && p.Sim.Choices == nil {
		add(func(q *C09Plan) { q.Sim.Policy = "fifo" })
	}
	if p.Sim.MapShuffle {
		add(func(q *C09Plan) { q.Sim.MapShuffle = false })
	}
	return out
}
