//go:build verifoverlay

package bandersnatch

import "github.com/crate-crypto/go-ipa/bandersnatch/fr"

// Test-only accessors for the internal MSM entry points (scratch copy only;
// never part of /repo). If a change under test renames these internals the
// harness build falls back to the public API.

func VerifPartitionScalars(scalars []fr.Element, c uint64, scalarsMont bool, nbTasks int) ([]fr.Element, int) {
	return partitionScalars(scalars, c, scalarsMont, nbTasks)
}

func VerifMsmInner(p *PointProj, c int, points []PointAffine, scalars []fr.Element, splitFirstChunk bool) {
	msmInnerPointProj(p, c, points, scalars, splitFirstChunk)
}
