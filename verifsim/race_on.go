//go:build race

package verifsim

import (
	"runtime"
	"unsafe"
)

const RaceEnabled = true

func raceDisable() { runtime.RaceDisable() }
func raceEnable()  { runtime.RaceEnable() }

func raceRelease(p unsafe.Pointer) { runtime.RaceReleaseMerge(p) }
func raceAcquire(p unsafe.Pointer) { runtime.RaceAcquire(p) }
