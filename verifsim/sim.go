// Package verifsim is the runtime half of the deterministic simulator used by
// /verif. It is copied into a scratch copy of go-ipa (never into /repo) and the
// instrumented library calls into it at every scheduling-relevant construct.
//
// With no simulation active every entry point degenerates to the original Go
// construct (Go -> go, NumCPU -> runtime.NumCPU, ...), so the instrumented copy
// still passes the repository's own test-suite ("pass-through mode").
//
// With a simulation active (Run), real goroutines are parked and released one at
// a time by a seeded scheduler: between two scheduler decisions exactly one task
// executes library code. Quiescence ("everybody else is durably blocked") is
// detected by the wait function handed to Run (testing/synctest.Wait).
//
// All bookkeeping lives in //go:norace functions over fixed arrays and all
// handoffs happen between raceDisable()/raceEnable(), so a -race build sees only
// the happens-before edges created by the library's own synchronisation.
package verifsim

import (
	"fmt"
	"runtime"
	"sync"
	"sync/atomic"
	"time"
	"unsafe"
)

const (
	MaxTasks  = 1 << 18
	MaxParked = 1 << 15
	MaxSites  = 1 << 13
	gidTabLen = 1 << 19 // > 2*MaxTasks
)

// Policies.
const (
	PolRandom = iota
	PolFIFO
	PolLIFO
	PolSticky
	PolPCT
	PolStarve
	PolMainLast
	PolRoundRobin
	NumPolicies
)

var PolicyNames = [...]string{"random", "fifo", "lifo", "sticky", "pct", "starve", "mainlast", "roundrobin"}

// Config is the complete description of the scheduler's behaviour for one run.
type Config struct {
	NumCPU     int     // value returned by NumCPU() inside the simulation
	GoMaxProcs int     // value returned by GoMaxProcs() (runtime.GOMAXPROCS(0)); 0 = same as NumCPU
	Policy     int     // one of Pol*
	Param      int     // policy parameter (sticky: switch 1/Param, pct: #change points, starve: victim rank)
	Seed       uint64  // PRNG seed for policy decisions, pool and map-order decisions
	Choices    []int32 // if non-nil: replay these choices (index into sorted runnable list); exhausted => 0
	MaxSteps   int     // step cap (0 = default 5e6)
	PoolBuggy  bool    // sync.Pool decisions made by the simulator (fresh / recycled dirty / dropped)
	PoolMode   int     // 0 mixed, 1 never recycle (like a pool emptied by the GC), 2 always recycle the most recent object, never drop
	MapShuffle bool    // map iteration order = seeded permutation of canonical order
	Record     bool    // record the choice list in the report
	EstSteps   int     // pct: estimated number of steps, for placing change points
}

type BlockedInfo struct {
	Task int
	Site string
	What string
}

type PanicInfo struct {
	Task  int
	Site  string
	Value string
	Stack string
}

// Report is what one simulated run did.
type Report struct {
	Steps        int
	Tasks        int
	MaxParked    int
	MaxLive      int
	Branching    int // steps at which more than one task was runnable
	TraceHash    uint64
	Choices      []int32
	Deadlock     bool
	Leaked       int // tasks still blocked after the root task (the call under test) returned
	StepCap      bool
	TooMany      bool
	Blocked      []BlockedInfo
	Panics       []PanicInfo
	PoolGets     int
	PoolFresh    int
	PoolRecycled int
	PoolDropped  int
	MapShuffles  int
	UnrankedMaps int
	LockSpins    int
	Sleeps       int
	SimTimeNs    int64
	NumCPUReads  int
	SiteSeq      map[string]uint64 // per fan-in site: hash of the order in which tasks passed it
	SiteCount    map[string]int
}

const (
	stNew = iota
	stParked
	stRunning
	stDone
)

type task struct {
	id     int
	gid    uint64
	state  int
	site   int
	what   int // 0 yield, 1 lock-spin, 2 sleep
	wake   chan struct{}
	prio   uint64
	lastOp int // site of last wrapper entered (for deadlock reports)
	lastK  int
}

type gidEnt struct {
	gid uint64
	t   *task
}

type sim struct {
	mu   sync.Mutex
	cfg  Config
	wait func()
	kick chan struct{}

	tasks  [MaxTasks]*task
	ntasks int
	live   int

	parked  [MaxParked]*task
	nparked int

	gidTab [gidTabLen]gidEnt

	rng     uint64
	poolRng uint64
	mapRng  uint64

	steps     int
	branching int
	hash      uint64
	maxParked int
	maxLive   int
	choices   []int32
	nchoice   int
	lastRun   *task
	rr        int
	victim    *task
	pctPoints []int

	spinFails int // consecutive failed cooperative lock attempts since the last real progress

	tooMany bool
	panics  [16]PanicInfo
	npanics int

	poolGets, poolFresh, poolRecycled, poolDropped int
	mapShuffles, unrankedMaps, lockSpins, sleeps    int
	numCPUReads                                    int

	siteSeq   [MaxSites]uint64
	siteCount [MaxSites]int32

	stash [8]poolStash

	doneSync int32
}

// cur is the active simulation, nil in pass-through mode. It is only written by
// Run (before the root task starts and after every task has stopped running).
var cur *sim

var progress uint64

// Progress returns a counter that advances with every scheduler step (read by
// the worker's real-time watchdog, which lives outside the bubble).
func Progress() uint64 { return atomic.LoadUint64(&progress) }

// Active reports whether a simulation is running.
//
//go:norace
func Active() bool { return cur != nil }

//go:norace
func splitmix(x *uint64) uint64 {
	*x += 0x9e3779b97f4a7c15
	z := *x
	z = (z ^ (z >> 30)) * 0xbf58476d1ce4e5b9
	z = (z ^ (z >> 27)) * 0x94d049bb133111eb
	return z ^ (z >> 31)
}

//go:norace
func parseGid(b []byte) uint64 {
	// "goroutine 123 ["
	const p = len("goroutine ")
	var g uint64
	for i := p; i < len(b); i++ {
		c := b[i]
		if c < '0' || c > '9' {
			break
		}
		g = g*10 + uint64(c-'0')
	}
	return g
}

//go:norace
func curGid() uint64 {
	var buf [40]byte
	n := runtime.Stack(buf[:], false)
	return parseGid(buf[:n])
}

//go:norace
func (s *sim) gidPut(gid uint64, t *task) {
	i := (gid * 0x9e3779b97f4a7c15) >> (64 - 19)
	for {
		e := &s.gidTab[i]
		if e.gid == 0 {
			e.gid = gid
			e.t = t
			return
		}
		i = (i + 1) & (gidTabLen - 1)
	}
}

//go:norace
func (s *sim) gidGet(gid uint64) *task {
	i := (gid * 0x9e3779b97f4a7c15) >> (64 - 19)
	for {
		e := &s.gidTab[i]
		if e.gid == gid {
			return e.t
		}
		if e.gid == 0 {
			return nil
		}
		i = (i + 1) & (gidTabLen - 1)
	}
}

// self returns the task of the calling goroutine, or nil (no simulation, or a
// goroutine the simulator does not know: those pass through).
//
//go:norace
func self() (*sim, *task) {
	s := cur
	if s == nil {
		return nil, nil
	}
	gid := curGid()
	raceDisable()
	s.mu.Lock()
	t := s.gidGet(gid)
	s.mu.Unlock()
	raceEnable()
	if t == nil {
		return nil, nil
	}
	return s, t
}

//go:norace
func (s *sim) insertParked(t *task) {
	// sorted by id
	lo, hi := 0, s.nparked
	for lo < hi {
		m := (lo + hi) / 2
		if s.parked[m].id < t.id {
			lo = m + 1
		} else {
			hi = m
		}
	}
	if s.nparked >= MaxParked {
		s.tooMany = true
		return
	}
	for i := s.nparked; i > lo; i-- {
		s.parked[i] = s.parked[i-1]
	}
	s.parked[lo] = t
	s.nparked++
	if s.nparked > s.maxParked {
		s.maxParked = s.nparked
	}
}

//go:norace
func (s *sim) removeParked(i int) {
	for j := i; j < s.nparked-1; j++ {
		s.parked[j] = s.parked[j+1]
	}
	s.nparked--
	s.parked[s.nparked] = nil
}

// park blocks the calling task until the scheduler releases it.
//
//go:norace
func (s *sim) park(t *task, site int, what int) {
	raceDisable()
	s.mu.Lock()
	t.state = stParked
	t.site = site
	t.what = what
	if what == 1 {
		s.spinFails++
	} else {
		s.spinFails = 0
	}
	s.insertParked(t)
	s.mu.Unlock()
	select {
	case s.kick <- struct{}{}:
	default:
	}
	<-t.wake
	raceEnable()
}

// Yield is a scheduling point: the calling task parks and the scheduler decides
// who runs next.
//
//go:norace
func Yield(site int) {
	s, t := self()
	if t == nil {
		return
	}
	s.park(t, site, 0)
}

//go:norace
func (s *sim) note(t *task, site int, kind int) {
	t.lastOp = site
	t.lastK = kind
}

//go:norace
func (s *sim) fanin(t *task, site int) {
	if site >= 0 && site < MaxSites {
		h := s.siteSeq[site]
		h = (h ^ uint64(t.id+1)) * 0x100000001b3
		s.siteSeq[site] = h
		s.siteCount[site]++
	}
}

// Go starts f as a new task (pass-through: as a new goroutine).
//
//go:norace
func Go(site int, f func()) {
	s, t := self()
	if t == nil {
		go f()
		return
	}
	c := s.newTask()
	if c == nil {
		// too many tasks: run unscheduled so that the run can end; flagged in the report
		go f()
		return
	}
	go s.taskMain(c, site, f)
	s.park(t, site, 0) // the child may run first
}

//go:norace
func (s *sim) newTask() *task {
	raceDisable()
	s.mu.Lock()
	if s.ntasks >= MaxTasks {
		s.tooMany = true
		s.mu.Unlock()
		raceEnable()
		return nil
	}
	c := &task{id: s.ntasks, wake: make(chan struct{}, 1)}
	c.prio = splitmix(&s.rng)
	s.tasks[s.ntasks] = c
	s.ntasks++
	s.live++
	if s.live > s.maxLive {
		s.maxLive = s.live
	}
	s.mu.Unlock()
	raceEnable()
	return c
}

//go:norace
func (s *sim) register(c *task) {
	gid := curGid()
	raceDisable()
	s.mu.Lock()
	c.gid = gid
	s.gidPut(gid, c)
	s.mu.Unlock()
	raceEnable()
}

func (s *sim) taskMain(c *task, site int, f func()) {
	s.register(c)
	s.park(c, site, 0)
	defer s.taskEnd(c)
	f()
}

func (s *sim) taskEnd(c *task) {
	if r := recover(); r != nil {
		buf := make([]byte, 16<<10)
		n := runtime.Stack(buf, false)
		s.recordPanic(c, fmt.Sprint(r), string(buf[:n]))
	}
	s.finish(c)
}

//go:norace
func (s *sim) recordPanic(c *task, v, stack string) {
	name := SiteName(c.lastOp)
	raceRelease(unsafe.Pointer(&s.doneSync))
	raceDisable()
	s.mu.Lock()
	if s.npanics < len(s.panics) {
		s.panics[s.npanics] = PanicInfo{Task: c.id, Site: name, Value: v, Stack: stack}
		s.npanics++
	}
	s.mu.Unlock()
	raceEnable()
}

//go:norace
func (s *sim) finish(c *task) {
	// everything a finished task did happens-before Run returning
	raceRelease(unsafe.Pointer(&s.doneSync))
	raceDisable()
	s.mu.Lock()
	c.state = stDone
	s.live--
	s.mu.Unlock()
	raceEnable()
}

// NumCPU is the simulated CPU count (pass-through: runtime.NumCPU()).
//
//go:norace
func NumCPU() int {
	s := cur
	if s == nil || s.cfg.NumCPU <= 0 {
		return runtime.NumCPU()
	}
	s.numCPUReads++
	return s.cfg.NumCPU
}

//go:norace
func (s *sim) pick() int {
	return s.choose(s.nparked, nil)
}

// idleWait blocks the scheduler goroutine until some task parks (true) or nothing
// can ever happen any more (false). While it blocks, every goroutine of the bubble
// is durably blocked, so the bubble's fake clock jumps to the next timer: a task
// sleeping in time.Sleep or waiting for a timer channel wakes up and parks.
//
//go:norace
func (s *sim) idleWait() bool {
	select {
	case <-s.kick:
	default:
	}
	tm := time.NewTimer(100000 * time.Hour)
	woke := false
	select {
	case <-s.kick:
		woke = true
	case <-tm.C:
	}
	tm.Stop()
	if woke {
		s.wait()
	}
	return woke
}

//go:norace
func (s *sim) allSpinning() bool {
	for i := 0; i < s.nparked; i++ {
		if s.parked[i].what != 1 {
			return false
		}
	}
	return s.nparked > 0
}

// GoMaxProcs is the simulated runtime.GOMAXPROCS(0): by default equal to the
// simulated CPU count, but a separate knob (a process may run with fewer or more
// Ps than the machine has CPUs).
//
//go:norace
func GoMaxProcs() int {
	s := cur
	if s == nil {
		return runtime.GOMAXPROCS(0)
	}
	if s.cfg.GoMaxProcs > 0 {
		return s.cfg.GoMaxProcs
	}
	if s.cfg.NumCPU > 0 {
		return s.cfg.NumCPU
	}
	return runtime.GOMAXPROCS(0)
}

//go:norace
func (s *sim) at(cand []int, k int) *task {
	if cand == nil {
		return s.parked[k]
	}
	return s.parked[cand[k]]
}

// choose returns an index in [0,n) into the candidate list (cand maps candidate
// index to parked index; nil means identity).
//
//go:norace
func (s *sim) choose(n int, cand []int) int {
	if n > 1 {
		s.branching++
	}
	var k int
	if s.cfg.Choices != nil {
		if s.nchoice < len(s.cfg.Choices) {
			k = int(s.cfg.Choices[s.nchoice])
			if k < 0 {
				k = -k
			}
			k %= n
		} else {
			k = 0
		}
		s.nchoice++
		return k
	}
	if n == 1 {
		k = 0
	} else {
		switch s.cfg.Policy {
		case PolFIFO:
			k = 0
		case PolLIFO:
			k = n - 1
		case PolSticky:
			k = -1
			p := s.cfg.Param
			if p < 2 {
				p = 2
			}
			if s.lastRun != nil && splitmix(&s.rng)%uint64(p) != 0 {
				for i := 0; i < n; i++ {
					if s.at(cand, i) == s.lastRun {
						k = i
						break
					}
				}
			}
			if k < 0 {
				k = int(splitmix(&s.rng) % uint64(n))
			}
		case PolPCT:
			for len(s.pctPoints) > 0 && s.pctPoints[0] <= s.steps {
				s.pctPoints = s.pctPoints[1:]
				if s.lastRun != nil {
					s.lastRun.prio = uint64(len(s.pctPoints)) // lower than any random priority
				}
			}
			k = 0
			for i := 1; i < n; i++ {
				if s.at(cand, i).prio > s.at(cand, k).prio {
					k = i
				}
			}
		case PolStarve:
			if s.victim == nil {
				s.victim = s.at(cand, s.cfg.Param % n)
			}
			k = int(splitmix(&s.rng) % uint64(n))
			if s.at(cand, k) == s.victim {
				k = (k + 1) % n
			}
		case PolMainLast:
			k = int(splitmix(&s.rng) % uint64(n))
			if s.at(cand, k).id == 0 {
				k = (k + 1) % n
			}
		case PolRoundRobin:
			s.rr++
			k = s.rr % n
		default:
			k = int(splitmix(&s.rng) % uint64(n))
		}
	}
	if s.cfg.Record {
		s.choices = append(s.choices, int32(k))
	}
	return k
}

// Run executes root as task 0 under the scheduler described by cfg. wait must
// block until every other goroutine of the bubble is durably blocked
// (testing/synctest.Wait). Run must be called from inside the bubble, and
// everything root uses that can block (channels, WaitGroups) must be created
// inside the bubble.
//
//go:norace
func Run(cfg Config, wait func(), root func()) *Report {
	if cur != nil {
		panic("verifsim: nested Run")
	}
	s := &sim{cfg: cfg, wait: wait, kick: make(chan struct{}, 1)}
	if s.cfg.MaxSteps <= 0 {
		s.cfg.MaxSteps = 5_000_000
	}
	s.rng = cfg.Seed ^ 0x5151515151515151
	s.poolRng = cfg.Seed ^ 0xa0a0a0a0a0a0a0a0
	s.mapRng = cfg.Seed ^ 0x0c0c0c0c0c0c0c0c
	s.hash = 0xcbf29ce484222325
	if cfg.Policy == PolPCT {
		est := cfg.EstSteps
		if est <= 0 {
			est = 20000
		}
		d := cfg.Param
		if d < 1 {
			d = 3
		}
		for i := 0; i < d; i++ {
			s.pctPoints = append(s.pctPoints, int(splitmix(&s.rng)%uint64(est)))
		}
		// sort ascending
		for i := 1; i < len(s.pctPoints); i++ {
			for j := i; j > 0 && s.pctPoints[j] < s.pctPoints[j-1]; j-- {
				s.pctPoints[j], s.pctPoints[j-1] = s.pctPoints[j-1], s.pctPoints[j]
			}
		}
	}
	cur = s
	t0 := time.Now() // fake clock of the bubble
	c := s.newTaskLocked()
	// started outside the raceDisable region: the go statement is a real
	// happens-before edge from the caller to the root task.
	go s.taskMain(c, 0, root)
	raceDisable()

	rep := &Report{}
	for {
		wait()
		// every other goroutine is durably blocked: parked, or blocked in the
		// library's own synchronisation, or finished.
		if s.nparked == 0 {
			if s.live == 0 {
				break
			}
			if s.tasks[0].state == stDone {
				// The call under test has returned. Tasks that are still blocked are goroutines
				// the library keeps alive across calls (idle workers of a pool): a leak at worst,
				// not a call that blocks forever.
				rep.Leaked = s.live
				break
			}
			// Nobody is runnable. If some task waits for a timer of the bubble's
			// fake clock, let the clock advance (it only does so when every
			// goroutine, this one included, is durably blocked) and look again.
			if s.idleWait() {
				continue
			}
			rep.Deadlock = true
			break
		}
		if s.steps >= s.cfg.MaxSteps {
			rep.StepCap = true
			break
		}
		// Cooperative locks: if every runnable task is spinning on a lock and each has
		// failed repeatedly with no real progress in between, no holder can ever
		// release: a lock deadlock (lock-order inversion, lock held while blocked).
		if s.spinFails > 3*s.nparked+8 && s.allSpinning() {
			// unless a task that is asleep on the bubble's clock holds the lock: let time pass first
			if s.idleWait() {
				s.spinFails = 0
				continue
			}
			rep.Deadlock = true
			break
		}
		if s.tooMany {
			break
		}
		i := s.pick()
		t := s.parked[i]
		s.removeParked(i)
		s.steps++
		atomic.AddUint64(&progress, 1)
		s.hash = (s.hash ^ uint64(t.id+1)) * 0x100000001b3
		s.hash = (s.hash ^ uint64(t.site+1)) * 0x100000001b3
		s.lastRun = t
		t.state = stRunning
		t.wake <- struct{}{}
	}
	// Collect (outside the raceDisable region: fmt uses a sync.Pool).
	raceEnable()
	raceAcquire(unsafe.Pointer(&s.doneSync))
	rep.Steps = s.steps
	rep.Tasks = s.ntasks
	rep.MaxParked = s.maxParked
	rep.MaxLive = s.maxLive
	rep.Branching = s.branching
	rep.TraceHash = s.hash
	rep.Choices = s.choices
	rep.TooMany = s.tooMany
	for i := 0; i < s.npanics; i++ {
		rep.Panics = append(rep.Panics, s.panics[i])
	}
	rep.PoolGets, rep.PoolFresh, rep.PoolRecycled, rep.PoolDropped = s.poolGets, s.poolFresh, s.poolRecycled, s.poolDropped
	rep.MapShuffles, rep.UnrankedMaps, rep.LockSpins, rep.Sleeps = s.mapShuffles, s.unrankedMaps, s.lockSpins, s.sleeps
	rep.SimTimeNs = int64(time.Since(t0))
	rep.NumCPUReads = s.numCPUReads
	if rep.Deadlock || rep.StepCap {
		for i := 0; i < s.ntasks && len(rep.Blocked) < 32; i++ {
			t := s.tasks[i]
			if t.state == stDone {
				continue
			}
			what := "blocked in " + opNames[t.lastK]
			if t.state == stParked {
				what = "runnable (parked)"
				if t.what == 1 {
					what = "spinning on a lock held by another blocked task"
				}
			}
			rep.Blocked = append(rep.Blocked, BlockedInfo{Task: t.id, Site: SiteName(t.lastOp), What: what})
		}
	}
	rep.SiteSeq = map[string]uint64{}
	rep.SiteCount = map[string]int{}
	for i := 0; i < MaxSites; i++ {
		if s.siteCount[i] > 0 {
			rep.SiteSeq[SiteName(i)] = s.siteSeq[i]
			rep.SiteCount[SiteName(i)] = int(s.siteCount[i])
		}
	}
	cur = nil
	return rep
}

//go:norace
func (s *sim) newTaskLocked() *task {
	c := &task{id: s.ntasks, wake: make(chan struct{}, 1)}
	c.prio = splitmix(&s.rng)
	s.tasks[s.ntasks] = c
	s.ntasks++
	s.live++
	s.maxLive = 1
	return c
}

// ---- site table -----------------------------------------------------------

var siteNames []string
var siteMu sync.Mutex

// RegisterSites installs the instrumenter's site table (id -> "file:line kind").
func RegisterSites(names []string) {
	siteMu.Lock()
	defer siteMu.Unlock()
	if len(siteNames) < len(names) {
		n := make([]string, len(names))
		copy(n, siteNames)
		siteNames = n
	}
	for i, s := range names {
		if s != "" {
			siteNames[i] = s
		}
	}
}

// HarnessSite allocates a site id for a harness-defined scheduling point.
func HarnessSite(name string) int {
	siteMu.Lock()
	defer siteMu.Unlock()
	for i, s := range siteNames {
		if s == name {
			return i
		}
	}
	siteNames = append(siteNames, name)
	return len(siteNames) - 1
}

//go:norace
func SiteName(i int) string {
	if i >= 0 && i < len(siteNames) && siteNames[i] != "" {
		return siteNames[i]
	}
	return fmt.Sprintf("site#%d", i)
}

var opNames = [...]string{"(none)", "chan send", "chan recv", "chan close", "WaitGroup.Wait", "WaitGroup.Done", "range chan", "select", "Mutex.Lock", "Cond.Wait", "Once.Do", "sleep", "go", "errgroup"}

const (
	opNone = iota
	opSend
	opRecv
	opClose
	opWGWait
	opWGDone
	opRange
	opSelect
	opLock
	opCond
	opOnce
	opSleep
	opGo
	opErrgroup
)
