package verifsim

import (
	"fmt"
	"os"
	"sync"
	"testing"
	"testing/synctest"
)

func bubble(t *testing.T, f func()) (rec interface{}) {
	defer func() { rec = recover() }()
	synctest.Test(t, func(t *testing.T) { f() })
	return nil
}

func fanin(cfg Config, senders, want int) (order string, rep *Report) {
	var res string
	f := func() {
		resCh := make(chan string, 1)
		rep = Run(cfg, synctest.Wait, func() {
			ch := make(chan int)
			for i := 0; i < senders; i++ {
				i := i
				Go(1, func() { Send(ch, i, 2) })
			}
			s := ""
			for i := 0; i < want; i++ {
				s += fmt.Sprint(Recv(ch, 3))
			}
			resCh <- s
		})
		select {
		case res = <-resCh:
		default:
			res = "<none>"
		}
	}
	f()
	return res, rep
}

func TestFanInOrdersAndDeterminism(t *testing.T) {
	orders := map[string]int{}
	for seed := uint64(1); seed <= 2000; seed++ {
		var o1, o2 string
		var r1, r2 *Report
		if rec := bubble(t, func() { o1, r1 = fanin(Config{Seed: seed, Policy: PolRandom, Record: true}, 4, 4) }); rec != nil {
			t.Fatal(rec)
		}
		if rec := bubble(t, func() { o2, r2 = fanin(Config{Seed: seed, Policy: PolRandom}, 4, 4) }); rec != nil {
			t.Fatal(rec)
		}
		if o1 != o2 || r1.TraceHash != r2.TraceHash || r1.Steps != r2.Steps {
			t.Fatalf("seed %d not deterministic: %s/%s %x/%x", seed, o1, o2, r1.TraceHash, r2.TraceHash)
		}
		// replay from the recorded choices under a different policy
		var o3 string
		var r3 *Report
		bubble(t, func() { o3, r3 = fanin(Config{Seed: 999, Policy: PolLIFO, Choices: r1.Choices}, 4, 4) })
		if o3 != o1 || r3.TraceHash != r1.TraceHash {
			t.Fatalf("seed %d replay differs: %s/%s", seed, o1, o3)
		}
		if r1.Deadlock || len(r1.Panics) > 0 {
			t.Fatalf("unexpected %+v", r1)
		}
		orders[o1]++
	}
	if len(orders) != 24 {
		t.Fatalf("reached %d of 24 arrival orders: %v", len(orders), orders)
	}
}

func TestPolicies(t *testing.T) {
	for pol := 0; pol < NumPolicies; pol++ {
		seen := map[string]bool{}
		for seed := uint64(1); seed <= 40; seed++ {
			var o string
			var r *Report
			if rec := bubble(t, func() { o, r = fanin(Config{Seed: seed, Policy: pol, Param: int(seed)}, 4, 4) }); rec != nil {
				t.Fatal(rec)
			}
			if len(o) != 4 || r.Deadlock {
				t.Fatalf("policy %d seed %d: %q %+v", pol, seed, o, r)
			}
			seen[o] = true
		}
		t.Logf("policy %-10s distinct orders %d", PolicyNames[pol], len(seen))
	}
}

func TestDeadlockDetected(t *testing.T) {
	var r *Report
	rec := bubble(t, func() { _, r = fanin(Config{Seed: 1}, 4, 5) })
	if r == nil || !r.Deadlock {
		t.Fatalf("deadlock not detected: %+v", r)
	}
	if rec == nil {
		t.Fatalf("expected the end-of-bubble deadlock panic")
	}
	if len(r.Blocked) == 0 || r.Blocked[0].What != "blocked in chan recv" {
		t.Fatalf("blocked info: %+v", r.Blocked)
	}
}

func TestPanicRecovered(t *testing.T) {
	var r *Report
	bubble(t, func() {
		r = Run(Config{Seed: 3}, synctest.Wait, func() {
			var wg sync.WaitGroup
			wg.Add(1)
			Go(1, func() { defer WGDone(&wg, 2); panic("boom") })
			WGWait(&wg, 3)
		})
	})
	if len(r.Panics) != 1 || r.Panics[0].Value != "boom" || r.Deadlock {
		t.Fatalf("%+v", r)
	}
}

func TestSleepClock(t *testing.T) {
	var r *Report
	var got string
	bubble(t, func() {
		r = Run(Config{Seed: 3}, synctest.Wait, func() {
			ch := make(chan string, 2)
			Go(1, func() { Sleep(5e9, 2); Send(ch, "a", 2) })
			Go(1, func() { Sleep(1e9, 2); Send(ch, "b", 2) })
			got = Recv(ch, 3) + Recv(ch, 3)
		})
	})
	if got != "ba" || r.SimTimeNs != 5e9 || r.Deadlock {
		t.Fatalf("%q %+v", got, r)
	}
}

func TestLockCooperative(t *testing.T) {
	var r *Report
	n := 0
	bubble(t, func() {
		r = Run(Config{Seed: 5}, synctest.Wait, func() {
			var mu sync.Mutex
			var wg sync.WaitGroup
			for i := 0; i < 4; i++ {
				wg.Add(1)
				Go(1, func() {
					Lock(&mu, 2)
					Yield(4) // hold the lock across a scheduling point
					n++
					mu.Unlock()
					WGDone(&wg, 2)
				})
			}
			WGWait(&wg, 3)
		})
	})
	if n != 4 || r.Deadlock || r.StepCap {
		t.Fatalf("%d %+v", n, r)
	}
}

// TestRaceToy is run by the self-test driver in a -race build and must make the
// race detector fail the process: two tasks touch `shared` with no
// synchronisation of their own although the scheduler runs them strictly one
// after the other.
func TestRaceToy(t *testing.T) {
	if os.Getenv("VERIFSIM_RACE_TOY") == "" {
		t.Skip("driver only")
	}
	shared := 0
	bubble(t, func() {
		Run(Config{Seed: 1, Policy: PolFIFO}, synctest.Wait, func() {
			done := make(chan struct{}, 2)
			Go(1, func() { shared += 1; Yield(9); Send(done, struct{}{}, 2) })
			Go(1, func() { Yield(9); shared += 2; Send(done, struct{}{}, 2) })
			Recv(done, 3)
			Recv(done, 3)
		})
	})
	_ = shared
}

// TestNoFalseRace: properly synchronised hand-over must not be reported.
func TestNoFalseRace(t *testing.T) {
	for seed := uint64(0); seed < 200; seed++ {
		shared := 0
		bubble(t, func() {
			res := make(chan int, 1)
			defer func() { shared = <-res }()
			Run(Config{Seed: seed, PoolBuggy: true}, synctest.Wait, func() {
				shared := 0
				defer func() { res <- shared }()
				ch := make(chan int)
				var wg sync.WaitGroup
				wg.Add(2)
				Go(1, func() { shared += 1; Send(ch, 1, 2); WGDone(&wg, 4) })
				Go(1, func() { Recv(ch, 3); shared += 2; WGDone(&wg, 4) })
				WGWait(&wg, 5)
				shared += 4
			})
		})
		if shared != 7 {
			t.Fatal(shared)
		}
	}
}

// TestLockOrderDeadlock: two tasks take two mutexes in opposite order; under some
// schedules each holds one and spins on the other: must be reported as a deadlock,
// not run into the step cap.
func TestLockOrderDeadlock(t *testing.T) {
	dead, fine := 0, 0
	for seed := uint64(0); seed < 60; seed++ {
		var r *Report
		bubble(t, func() {
			r = Run(Config{Seed: seed, MaxSteps: 200000}, synctest.Wait, func() {
				var a, b sync.Mutex
				var wg sync.WaitGroup
				wg.Add(2)
				Go(1, func() { Lock(&a, 2); Yield(9); Lock(&b, 3); b.Unlock(); a.Unlock(); WGDone(&wg, 4) })
				Go(1, func() { Lock(&b, 5); Yield(9); Lock(&a, 6); a.Unlock(); b.Unlock(); WGDone(&wg, 4) })
				WGWait(&wg, 7)
			})
		})
		if r.StepCap {
			t.Fatalf("seed %d ran into the step cap", seed)
		}
		if r.Deadlock {
			dead++
		} else {
			fine++
		}
	}
	if dead == 0 || fine == 0 {
		t.Fatalf("dead=%d fine=%d", dead, fine)
	}
	t.Logf("lock-order inversion: %d schedules deadlock, %d do not", dead, fine)
}

// TestSleepWhileHoldingLock: a task sleeps while holding a mutex that the others
// spin on. Not a deadlock: the clock must advance and everybody finishes.
func TestSleepWhileHoldingLock(t *testing.T) {
	for seed := uint64(0); seed < 40; seed++ {
		var r *Report
		n := 0
		bubble(t, func() {
			res := make(chan int, 1)
			defer func() { n = <-res }()
			r = Run(Config{Seed: seed, MaxSteps: 100000}, synctest.Wait, func() {
				var mu sync.Mutex
				var wg sync.WaitGroup
				cnt := 0
				wg.Add(3)
				Go(1, func() { Lock(&mu, 2); Sleep(3e9, 8); cnt++; mu.Unlock(); WGDone(&wg, 4) })
				Go(1, func() { Lock(&mu, 2); cnt++; mu.Unlock(); WGDone(&wg, 4) })
				Go(1, func() { Lock(&mu, 2); cnt++; mu.Unlock(); WGDone(&wg, 4) })
				WGWait(&wg, 7)
				res <- cnt
			})
		})
		if r.Deadlock || r.StepCap || n != 3 {
			t.Fatalf("seed %d: %d %+v", seed, n, r)
		}
	}
}
