module github.com/crate-crypto/go-ipa/verifsim

go 1.25
