// Package errgroup is a simulator-aware re-implementation of the subset of
// golang.org/x/sync/errgroup that go-ipa uses (WithContext, SetLimit, Go, Wait,
// TryGo). Its goroutines are started through verifsim.Go so that they are tasks
// of the seeded scheduler; in pass-through mode it behaves like the original.
package errgroup

import (
	"context"
	"fmt"
	"sync"

	"github.com/crate-crypto/go-ipa/verifsim"
)

type token struct{}

type Group struct {
	cancel func(error)
	wg     sync.WaitGroup
	sem    chan token
	mu     sync.Mutex
	err    error
	hasErr bool
}

var site = verifsim.HarnessSite("verifsim/errgroup")

func WithContext(ctx context.Context) (*Group, context.Context) {
	ctx, cancel := context.WithCancelCause(ctx)
	return &Group{cancel: cancel}, ctx
}

func (g *Group) done() {
	if g.sem != nil {
		verifsim.Recv(g.sem, site)
	}
	verifsim.WGDone(&g.wg, site)
}

func (g *Group) Wait() error {
	verifsim.WGWait(&g.wg, site)
	if g.cancel != nil {
		g.cancel(g.err)
	}
	return g.err
}

func (g *Group) setErr(err error) {
	// sync.Once in the original; a TryLock loop keeps it cooperative
	verifsim.Lock(&g.mu, site)
	if !g.hasErr {
		g.hasErr = true
		g.err = err
		if g.cancel != nil {
			g.cancel(g.err)
		}
	}
	g.mu.Unlock()
}

func (g *Group) Go(f func() error) {
	if g.sem != nil {
		verifsim.Send(g.sem, token{}, site)
	}
	g.wg.Add(1)
	verifsim.Go(site, func() {
		defer g.done()
		if err := f(); err != nil {
			g.setErr(err)
		}
	})
}

func (g *Group) TryGo(f func() error) bool {
	if g.sem != nil {
		select {
		case g.sem <- token{}:
		default:
			return false
		}
	}
	g.wg.Add(1)
	verifsim.Go(site, func() {
		defer g.done()
		if err := f(); err != nil {
			g.setErr(err)
		}
	})
	return true
}

func (g *Group) SetLimit(n int) {
	if n < 0 {
		g.sem = nil
		return
	}
	if len(g.sem) != 0 {
		panic(fmt.Errorf("errgroup: modify limit while %v goroutines in the group are still active", len(g.sem)))
	}
	g.sem = make(chan token, n)
}
