package verifsim

import (
	"math/big"
	"reflect"
	"sort"
	"sync"
	"time"
	"unsafe"
)

// ---- channels -------------------------------------------------------------

// Send is `ch <- v` with a scheduling point before the operation and a park
// right after it (the sender may have been blocked and woken by a peer).
func Send[T any](ch chan<- T, v T, site int) {
	s, t := self()
	if t == nil {
		ch <- v
		return
	}
	s.note(t, site, opSend)
	s.park(t, site, 0)
	s.fanin(t, site)
	ch <- v
	s.park(t, site, 0)
}

// Recv is `<-ch`.
func Recv[T any](ch <-chan T, site int) T {
	s, t := self()
	if t == nil {
		return <-ch
	}
	s.note(t, site, opRecv)
	s.park(t, site, 0)
	v := <-ch
	s.park(t, site, 0)
	return v
}

// Recv2 is `v, ok := <-ch`.
func Recv2[T any](ch <-chan T, site int) (T, bool) {
	s, t := self()
	if t == nil {
		v, ok := <-ch
		return v, ok
	}
	s.note(t, site, opRecv)
	s.park(t, site, 0)
	v, ok := <-ch
	s.park(t, site, 0)
	return v, ok
}

// Close is `close(ch)`.
func Close[T any](ch chan<- T, site int) {
	s, t := self()
	if t == nil {
		close(ch)
		return
	}
	s.note(t, site, opClose)
	s.park(t, site, 0)
	close(ch)
}

// SelectPre is inserted before a select statement, Woke at the top of every
// comm clause (the task may have been blocked in the select).
func SelectPre(site int) {
	s, t := self()
	if t == nil {
		return
	}
	s.note(t, site, opSelect)
	s.park(t, site, 0)
}

func Woke(site int) { Yield(site) }

// ---- sync/atomic -----------------------------------------------------------
// Atomic operations are not blocking, but code that combines several of them
// (check-then-act) is only correct under some interleavings: every atomic
// operation is followed by a scheduling point.

// After is a scheduling point placed right after the evaluation of v (an atomic
// operation's result).
func After[T any](v T, site int) T {
	Yield(site)
	return v
}

// ---- WaitGroup --------------------------------------------------------------

func WGWait(wg *sync.WaitGroup, site int) {
	s, t := self()
	if t == nil {
		wg.Wait()
		return
	}
	s.note(t, site, opWGWait)
	s.park(t, site, 0)
	wg.Wait()
	s.park(t, site, 0)
}

func WGDone(wg *sync.WaitGroup, site int) {
	s, t := self()
	if t == nil {
		wg.Done()
		return
	}
	s.note(t, site, opWGDone)
	s.park(t, site, 0)
	s.fanin(t, site)
	wg.Done()
}

// ---- Mutex / RWMutex / Once / Cond: cooperative versions --------------------
// sync.Mutex.Lock is not a durably blocking operation under synctest, so a task
// must never block in it: spin on TryLock with a scheduling point per attempt.

type tryLocker interface {
	TryLock() bool
	Lock()
}

//go:norace
func (s *sim) countSpin() { s.lockSpins++ }

func Lock(m tryLocker, site int) {
	s, t := self()
	if t == nil {
		m.Lock()
		return
	}
	s.note(t, site, opLock)
	s.park(t, site, 0)
	for !m.TryLock() {
		s.countSpin()
		s.park(t, site, 1)
	}
}

type tryRLocker interface {
	TryRLock() bool
	RLock()
}

func RLock(m tryRLocker, site int) {
	s, t := self()
	if t == nil {
		m.RLock()
		return
	}
	s.note(t, site, opLock)
	s.park(t, site, 0)
	for !m.TryRLock() {
		s.countSpin()
		s.park(t, site, 1)
	}
}

type onceState struct {
	o             *sync.Once
	running, done bool
}

var onceTab [256]onceState

//go:norace
func onceLookup(o *sync.Once) *onceState {
	for i := range onceTab {
		if onceTab[i].o == o {
			return &onceTab[i]
		}
		if onceTab[i].o == nil {
			onceTab[i].o = o
			return &onceTab[i]
		}
	}
	return &onceTab[len(onceTab)-1]
}

//go:norace
func onceBegin(st *onceState) (running, done bool) {
	running, done = st.running, st.done
	if !running && !done {
		st.running = true
	}
	return
}

//go:norace
func onceEnd(st *onceState) { st.done = true; st.running = false }

// OnceDo is once.Do(f): a second caller arriving while f is running (f may
// contain scheduling points) spins cooperatively instead of blocking in the
// Once's internal mutex.
func OnceDo(o *sync.Once, f func(), site int) {
	s, t := self()
	if t == nil {
		o.Do(f)
		return
	}
	s.note(t, site, opOnce)
	s.park(t, site, 0)
	for {
		raceDisable()
		s.mu.Lock()
		st := onceLookup(o)
		running, done := onceBegin(st)
		s.mu.Unlock()
		raceEnable()
		if done {
			o.Do(func() {}) // acquire the Once's happens-before edge
			return
		}
		if !running {
			o.Do(f)
			raceDisable()
			s.mu.Lock()
			onceEnd(st)
			s.mu.Unlock()
			raceEnable()
			return
		}
		s.countSpin()
		s.park(t, site, 1)
	}
}

// CondWait is c.Wait(): sync.Cond.Wait is durably blocking under synctest; the
// re-acquisition of c.L inside Wait is not, so use it only with the pre/post
// points (best effort: no use in go-ipa today).
func CondWait(c *sync.Cond, site int) {
	s, t := self()
	if t == nil {
		c.Wait()
		return
	}
	s.note(t, site, opCond)
	s.park(t, site, 0)
	c.Wait()
	s.park(t, site, 0)
}

// ---- time ------------------------------------------------------------------

//go:norace
func (s *sim) countSleep() { s.sleeps++ }

// Sleep is time.Sleep on the bubble's fake clock: the task blocks durably; the
// clock advances only when no task is runnable (see Run), and the woken task
// parks again before touching library code.
func Sleep(d time.Duration, site int) {
	s, t := self()
	if t == nil {
		time.Sleep(d)
		return
	}
	s.note(t, site, opSleep)
	s.countSleep()
	s.park(t, site, 0)
	time.Sleep(d)
	s.park(t, site, 0)
}

// ---- sync.Pool ---------------------------------------------------------------

//go:norace
func (s *sim) poolDecision() uint64 { return splitmix(&s.poolRng) }

type poolStash struct {
	p     *sync.Pool
	items [64]interface{}
	n     int
}

//go:norace
func (s *sim) stashFor(p *sync.Pool) *poolStash {
	for i := range s.stash {
		if s.stash[i].p == p {
			return &s.stash[i]
		}
		if s.stash[i].p == nil {
			s.stash[i].p = p
			return &s.stash[i]
		}
	}
	return nil
}

//go:norace
func (s *sim) stashTake(p *sync.Pool, r uint64) interface{} {
	s.poolGets++
	st := s.stashFor(p)
	recycle := r%3 != 0
	switch s.cfg.PoolMode {
	case 1:
		recycle = false
	case 2:
		recycle = true
	}
	if st != nil && st.n > 0 && recycle {
		k := int((r >> 8) % uint64(st.n))
		if s.cfg.PoolMode == 2 {
			k = st.n - 1
		}
		x := st.items[k]
		st.items[k] = st.items[st.n-1]
		st.items[st.n-1] = nil
		st.n--
		s.poolRecycled++
		return x
	}
	s.poolFresh++
	return nil
}

//go:norace
func (s *sim) stashPut(p *sync.Pool, x interface{}, r uint64) {
	st := s.stashFor(p)
	drop := r%4 == 0
	switch s.cfg.PoolMode {
	case 1:
		drop = true
	case 2:
		drop = false
	}
	if drop || st == nil || st.n >= len(st.items) {
		s.poolDropped++
		return
	}
	st.items[st.n] = x
	st.n++
}

func dirty(x interface{}, r uint64) {
	switch v := x.(type) {
	case *big.Int:
		// a recycled big.Int holds an arbitrary earlier value
		v.SetUint64(r | 1)
		v.Lsh(v, uint(r%200))
		if r&2 != 0 {
			v.Neg(v)
		}
	}
}

// PoolGet is p.Get(). Under simulation with PoolBuggy the simulator decides
// between a fresh object and a recycled (deliberately dirtied) one.
func PoolGet(p *sync.Pool, site int) interface{} {
	s, t := self()
	if t == nil || !s.cfg.PoolBuggy {
		return p.Get()
	}
	r := s.poolDecision()
	raceDisable()
	s.mu.Lock()
	x := s.stashTake(p, r)
	s.mu.Unlock()
	raceEnable()
	if x != nil {
		if rv := reflect.ValueOf(x); rv.Kind() == reflect.Ptr {
			raceAcquire(unsafe.Pointer(rv.Pointer()))
		}
		dirty(x, r>>16)
		return x
	}
	if p.New != nil {
		return p.New()
	}
	return nil
}

// PoolPut is p.Put(x): kept in the simulator's stash or dropped.
func PoolPut(p *sync.Pool, x interface{}, site int) {
	s, t := self()
	if t == nil || !s.cfg.PoolBuggy {
		p.Put(x)
		return
	}
	r := s.poolDecision()
	if rv := reflect.ValueOf(x); rv.Kind() == reflect.Ptr {
		raceRelease(unsafe.Pointer(rv.Pointer()))
	}
	raceDisable()
	s.mu.Lock()
	s.stashPut(p, x, r)
	s.mu.Unlock()
	raceEnable()
}

// ---- map iteration order -----------------------------------------------------

var ptrRank = map[uintptr]int{}

// RankPointers lets the harness give pointer keys a canonical order, so that the
// "canonical order then seeded permutation" of MapKeys does not depend on
// addresses.
func RankPointers(ptrs []unsafe.Pointer) {
	ptrRank = make(map[uintptr]int, len(ptrs))
	for i, p := range ptrs {
		if _, ok := ptrRank[uintptr(p)]; !ok {
			ptrRank[uintptr(p)] = i
		}
	}
}

//go:norace
func (s *sim) mapDecision() uint64 { return splitmix(&s.mapRng) }

//go:norace
func (s *sim) countMap(unranked bool) {
	s.mapShuffles++
	if unranked {
		s.unrankedMaps++
	}
}

// MapKeys returns the keys of m in the order the instrumented `range m` visits
// them: native order in pass-through mode, a seeded permutation of a canonical
// order under simulation.
func MapKeys[K comparable, V any](m map[K]V, site int) []K {
	keys := make([]K, 0, len(m))
	for k := range m {
		keys = append(keys, k)
	}
	s, t := self()
	if t == nil || !s.cfg.MapShuffle || len(keys) < 2 {
		return keys
	}
	unranked := false
	rank := func(k K) (int64, string) {
		rv := reflect.ValueOf(k)
		switch rv.Kind() {
		case reflect.Ptr, reflect.UnsafePointer:
			if r, ok := ptrRank[rv.Pointer()]; ok {
				return int64(r), ""
			}
			unranked = true
			return int64(rv.Pointer()), ""
		case reflect.Int, reflect.Int8, reflect.Int16, reflect.Int32, reflect.Int64:
			return rv.Int(), ""
		case reflect.Uint, reflect.Uint8, reflect.Uint16, reflect.Uint32, reflect.Uint64, reflect.Uintptr:
			return int64(rv.Uint()), ""
		case reflect.String:
			return 0, rv.String()
		}
		unranked = true
		return 0, ""
	}
	type kr struct {
		k K
		a int64
		b string
	}
	krs := make([]kr, len(keys))
	for i, k := range keys {
		a, b := rank(k)
		krs[i] = kr{k, a, b}
	}
	sort.SliceStable(krs, func(i, j int) bool {
		if krs[i].a != krs[j].a {
			return krs[i].a < krs[j].a
		}
		return krs[i].b < krs[j].b
	})
	for i := len(krs) - 1; i > 0; i-- {
		j := int(s.mapDecision() % uint64(i+1))
		krs[i], krs[j] = krs[j], krs[i]
	}
	for i := range krs {
		keys[i] = krs[i].k
	}
	s.countMap(unranked)
	return keys
}

// ---- probes ------------------------------------------------------------------

const MaxProbes = 1 << 14

var probes [MaxProbes]uint32

// Probe counts executions of an instrumented block ("this branch was hit").
//
//go:norace
//go:noinline
func Probe(i int) {
	if uint(i) < MaxProbes {
		probes[i]++
	}
}

//go:norace
func ProbeSnapshot() []uint32 {
	out := make([]uint32, MaxProbes)
	copy(out, probes[:])
	return out
}

//go:norace
func ProbeReset() {
	for i := range probes {
		probes[i] = 0
	}
}
