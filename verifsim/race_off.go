//go:build !race

package verifsim

import "unsafe"

const RaceEnabled = false

func raceDisable() {}
func raceEnable()  {}

func raceRelease(p unsafe.Pointer) {}
func raceAcquire(p unsafe.Pointer) {}
