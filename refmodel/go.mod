module verif/refmodel

go 1.21
