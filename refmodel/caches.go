package refmodel

import (
	"crypto/sha256"
	"encoding/binary"
	"math/big"
	"sync"
)

// ---- Tonelli-Shanks parameters ----

type tonelliParams struct {
	s          int      // two-adicity of P-1
	q          *big.Int // odd part of P-1
	qPlus1Half *big.Int
	zq         *big.Int // z^q for some quadratic non-residue z
}

var (
	tonelliOnce sync.Once
	tonelliVal  tonelliParams
)

func tonelli() *tonelliParams {
	tonelliOnce.Do(func() {
		q := new(big.Int).Sub(P, bigOne)
		s := 0
		for q.Bit(0) == 0 {
			q.Rsh(q, 1)
			s++
		}
		z := big.NewInt(2)
		for big.Jacobi(z, P) != -1 {
			z.Add(z, bigOne)
		}
		h := new(big.Int).Add(q, bigOne)
		h.Rsh(h, 1)
		tonelliVal = tonelliParams{s: s, q: q, qPlus1Half: h, zq: new(big.Int).Exp(z, q, P)}
	})
	return &tonelliVal
}

// ---- CRS ----

const (
	// VectorLength is the size of the evaluation domain / of the CRS.
	VectorLength = 256
	numRounds    = 8
	crsSeed      = "eth_verkle_oct_2021"
)

var (
	crsOnce sync.Once
	crsVal  []Point
)

func crs() []Point {
	crsOnce.Do(func() {
		pts := make([]Point, 0, VectorLength)
		for inc := uint64(0); len(pts) < VectorLength; inc++ {
			var ctr [8]byte
			binary.BigEndian.PutUint64(ctr[:], inc)
			h := sha256.Sum256(append([]byte(crsSeed), ctr[:]...))
			x := new(big.Int).SetBytes(h[:])
			x.Mod(x, P)
			var xb [32]byte
			x.FillBytes(xb[:])
			p, err := Decode(xb[:])
			if err != nil {
				continue
			}
			pts = append(pts, p)
		}
		crsVal = pts
	})
	return crsVal
}

// CRS returns (a copy of the slice holding) the 256 Pedersen basis points.
func CRS() []Point {
	out := make([]Point, VectorLength)
	copy(out, crs())
	return out
}

// ---- commitment table: commitTable[i][k] = 2^k * G_i ----

var (
	tableOnce   sync.Once
	commitTable [][]Point
)

func table() [][]Point {
	tableOnce.Do(func() {
		g := crs()
		nb := R.BitLen()
		t := make([][]Point, len(g))
		for i := range g {
			row := make([]Point, nb)
			row[0] = g[i]
			for k := 1; k < nb; k++ {
				row[k] = row[k-1].Double()
			}
			t[i] = row
		}
		commitTable = t
	})
	return commitTable
}

// Commit returns the Pedersen commitment sum v_i*G_i (len(v) <= 256; scalars
// are reduced mod R first). It only performs point additions, on a cached
// table of 2^k*G_i.
func Commit(v []*big.Int) Point {
	if len(v) > VectorLength {
		panic("refmodel: Commit: vector longer than the CRS")
	}
	t := table()
	acc := Identity()
	for i, s := range v {
		k := frRed(s)
		for b := k.BitLen() - 1; b >= 0; b-- {
			if k.Bit(b) == 1 {
				acc = acc.Add(t[i][b])
			}
		}
	}
	return acc
}

// MSM returns sum scalars[i]*points[i] as a naive sum of Point.Mul.
func MSM(points []Point, scalars []*big.Int) Point {
	if len(points) != len(scalars) {
		panic("refmodel: MSM: length mismatch")
	}
	acc := Identity()
	for i := range points {
		acc = acc.Add(points[i].Mul(scalars[i]))
	}
	return acc
}

// msmShared computes the same value as MSM with a single shared doubling
// chain (bit-serial Straus). Scalars must be non-negative.
func msmShared(points []Point, scalars []*big.Int) Point {
	if len(points) != len(scalars) {
		panic("refmodel: msm: length mismatch")
	}
	maxBits := 0
	for _, s := range scalars {
		if s.Sign() < 0 {
			panic("refmodel: msm: negative scalar")
		}
		if s.BitLen() > maxBits {
			maxBits = s.BitLen()
		}
	}
	acc := Identity()
	for b := maxBits - 1; b >= 0; b-- {
		acc = acc.Double()
		for i, s := range scalars {
			if s.Bit(b) == 1 {
				acc = acc.Add(points[i])
			}
		}
	}
	return acc
}

// ---- barycentric weights A'(i) over the domain {0..255} ----

type weights struct {
	aPrime    []*big.Int // A'(i)
	aPrimeInv []*big.Int // 1/A'(i)
}

var (
	weightsOnce sync.Once
	weightsVal  weights
)

// domainWeights computes A'(i) = prod_{j != i} (i - j). Splitting the product
// into j < i and j > i gives the closed form
//
//	A'(i) = i! * (-1)^(255-i) * (255-i)!
func domainWeights() *weights {
	weightsOnce.Do(func() {
		n := VectorLength
		fact := make([]*big.Int, n)
		fact[0] = big.NewInt(1)
		for i := 1; i < n; i++ {
			fact[i] = frMul(fact[i-1], big.NewInt(int64(i)))
		}
		w := weights{aPrime: make([]*big.Int, n), aPrimeInv: make([]*big.Int, n)}
		for i := 0; i < n; i++ {
			v := frMul(fact[i], fact[n-1-i])
			if (n-1-i)%2 == 1 {
				v = frNeg(v)
			}
			w.aPrime[i] = v
			w.aPrimeInv[i] = frInv(v)
		}
		weightsVal = w
	})
	return &weightsVal
}
