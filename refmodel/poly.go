package refmodel

import "math/big"

// InnerProd returns sum a_i*b_i mod R.
func InnerProd(a, b []*big.Int) *big.Int {
	if len(a) != len(b) {
		panic("refmodel: InnerProd: length mismatch")
	}
	acc := new(big.Int)
	for i := range a {
		acc.Add(acc, new(big.Int).Mul(a[i], b[i]))
	}
	return acc.Mod(acc, R)
}

// BarycentricCoeffs returns the Lagrange basis polynomials evaluated at z:
//
//	b_i = L_i(z) = A(z) / (A'(i) * (z - i)),  A(X) = prod_j (X - j)
//
// so that <f, b> = f(z) for f given by its evaluations on {0..255}. It is
// meant for z outside the domain; for z inside, A(z) = 0 and (with 0^-1 = 0)
// the all-zero vector is returned.
func BarycentricCoeffs(z *big.Int) []*big.Int {
	w := domainWeights()
	zr := frRed(z)
	az := big.NewInt(1)
	diffs := make([]*big.Int, VectorLength)
	for i := 0; i < VectorLength; i++ {
		diffs[i] = frSub(zr, big.NewInt(int64(i)))
		az = frMul(az, diffs[i])
	}
	out := make([]*big.Int, VectorLength)
	for i := 0; i < VectorLength; i++ {
		out[i] = frMul(az, frMul(w.aPrimeInv[i], frInv(diffs[i])))
	}
	return out
}

// BVector returns the vector b with <f,b> = f(z): the unit vector e_z if z is
// in the domain (z <= 255 as an integer in [0,R)), else BarycentricCoeffs(z).
func BVector(z *big.Int) []*big.Int {
	zr := frRed(z)
	if zr.Cmp(big.NewInt(VectorLength-1)) > 0 {
		return BarycentricCoeffs(zr)
	}
	out := make([]*big.Int, VectorLength)
	for i := range out {
		out[i] = new(big.Int)
	}
	out[zr.Int64()] = big.NewInt(1)
	return out
}

// DivideOnDomain returns, in evaluation form, q(X) = (f(X) - f(k))/(X - k):
//
//	q_i = (f_i - f_k)/(i - k)                      for i != k
//	q_k = f'(k) = - sum_{i != k} (A'(k)/A'(i)) q_i
//
// (the second line follows from L_i'(k) = A'(k)/(A'(i)(k-i)) for i != k and
// sum_i L_i' = 0).
func DivideOnDomain(k uint8, f []*big.Int) []*big.Int {
	if len(f) != VectorLength {
		panic("refmodel: DivideOnDomain: polynomial must have 256 evaluations")
	}
	w := domainWeights()
	ki := int(k)
	q := make([]*big.Int, VectorLength)
	qk := new(big.Int)
	for i := 0; i < VectorLength; i++ {
		if i == ki {
			continue
		}
		den := frRed(big.NewInt(int64(i - ki)))
		q[i] = frMul(frSub(f[i], f[ki]), frInv(den))
		ratio := frMul(w.aPrime[ki], w.aPrimeInv[i])
		qk = frSub(qk, frMul(ratio, q[i]))
	}
	q[ki] = qk
	return q
}
