package refmodel

import (
	"bytes"
	"crypto/sha256"
	"encoding/binary"
	"errors"
	"fmt"
	"math/big"
)

// Known-answer vectors (taken from the test-suite of the implementation under
// test, which in turn shares them with the other Verkle implementations).
const (
	vecCRSFirst  = "01587ad1336675eb912550ec2a28eb8923b824b490dd2ba82e48f14590a298a0"
	vecCRSLast   = "3de2be346b539395b0c0de56a5ccca54a317f1b5c80107b0802af9a62276a4d8"
	vecCRSDigest = "1fcaea10bf24f750200e06fa473c76ff0468007291fa548e2d99f09ba9256fdb"

	vecTranscript1 = "c2aa02607cbdf5595f00ee0dd94a2bbff0bed6a2bf8452ada9011eadb538d003"
	vecTranscript2 = "498732b694a8ae1622d4a9347535be589e4aee6999ffc0181d13fe9e4d037b0b"
	vecTranscript3 = "14f59938e9e9b1389e74311a464f45d3d88d8ac96adf1c1129ac466de088d618"
	vecTranscript4 = "8c2dafe7c0aabfa9ed542bb2cbf0568399ae794fc44fdfd7dff6cc0e6144921c"

	vecIPACommitment = "1b9dff8f5ebbac250d291dfe90e36283a227c64b113c37f1bfb9e7a743cdb128"
	vecIPAOutput     = "4a353e70b03c89f161de002e8713beec0d740a5e20722fd5bd68b30540a33208"
	vecIPAState      = "0a81881cbfd7d7197a54ebd67ed6a68b5867f3c783706675b34ece43e85e7306"
	vecIPAProof      = "273395a8febdaed38e94c3d874e99c911a47dd84616d54c55021d5c4131b507e46a4ec2c7e82b77ec2f533994c91ca7edaef212c666a1169b29c323eabb0cf690e0146638d0e2d543f81da4bd597bf3013e1663f340a8f87b845495598d0a3951590b6417f868edaeb3424ff174901d1185a53a3ee127fb7be0af42dda44bf992885bde279ef821a298087717ef3f2b78b2ede7f5d2ea1b60a4195de86a530eb247fd7e456012ae9a070c61635e55d1b7a340dfab8dae991d6273d099d9552815434cc1ba7bcdae341cf7928c6f25102370bdf4b26aad3af654d9dff4b3735661db3177342de5aad774a59d3e1b12754aee641d5f9cd1ecd2751471b308d2d8410add1c9fcc5a2b7371259f0538270832a98d18151f653efbc60895fab8be9650510449081626b5cd24671d1a3253487d44f589c2ff0da3557e307e520cf4e0054bbf8bdffaa24b7e4cce5092ccae5a08281ee24758374f4e65f126cacce64051905b5e2038060ad399c69ca6cb1d596d7c9cb5e161c7dcddc1a7ad62660dd4a5f69b31229b80e6b3df520714e4ea2b5896ebd48d14c7455e91c1ecf4acc5ffb36937c49413b7d1005dd6efbd526f5af5d61131ca3fcdae1218ce81c75e62b39100ec7f474b48a2bee6cef453fa1bc3db95c7c6575bc2d5927cbf7413181ac905766a4038a7b422a8ef2bf7b5059b5c546c19a33c1049482b9a9093f864913ca82290decf6e9a65bf3f66bc3ba4a8ed17b56d890a83bcbe74435a42499dec115"

	vecMultiState = "eee8a80357ff74b766eba39db90797d022e8d6dee426ded71234241be504d519"
	vecMultiProof = "4f53588244efaf07a370ee3f9c467f933eed360d4fbf7a19dfc8bc49b67df4711bf1d0a720717cd6a8c75f1a668cb7cbdd63b48c676b89a7aee4298e71bd7f4013d7657146aa9736817da47051ed6a45fc7b5a61d00eb23e5df82a7f285cc10e67d444e91618465ca68d8ae4f2c916d1942201b7e2aae491ef0f809867d00e83468fb7f9af9b42ede76c1e90d89dd789ff22eb09e8b1d062d8a58b6f88b3cbe80136fc68331178cd45a1df9496ded092d976911b5244b85bc3de41e844ec194256b39aeee4ea55538a36139211e9910ad6b7a74e75d45b869d0a67aa4bf600930a5f760dfb8e4df9938d1f47b743d71c78ba8585e3b80aba26d24b1f50b36fa1458e79d54c05f58049245392bc3e2b5c5f9a1b99d43ed112ca82b201fb143d401741713188e47f1d6682b0bf496a5d4182836121efff0fd3b030fc6bfb5e21d6314a200963fe75cb856d444a813426b2084dfdc49dca2e649cb9da8bcb47859a4c629e97898e3547c591e39764110a224150d579c33fb74fa5eb96427036899c04154feab5344873d36a53a5baefd78c132be419f3f3a8dd8f60f72eb78dd5f43c53226f5ceb68947da3e19a750d760fb31fa8d4c7f53bfef11c4b89158aa56b1f4395430e16a3128f88e234ce1df7ef865f2d2c4975e8c82225f578310c31fd41d265fd530cbfa2b8895b228a510b806c31dff3b1fa5c08bffad443d567ed0e628febdd22775776e0cc9cebcaea9c6df9279a5d91dd0ee5e7a0434e989a160005321c97026cb559f71db23360105460d959bcdf74bee22c4ad8805a1d497507"
)

func hx(b []byte) string { return fmt.Sprintf("%x", b) }

func pointHex(p Point) string { e := p.Encode(); return hx(e[:]) }

func scalarHex(s *big.Int) string { e := EncodeScalarLE(s); return hx(e[:]) }

// repeatPoly returns the 256-evaluation polynomial cycle[0], cycle[1], ...
// repeated until 256 entries are filled.
func repeatPoly(cycle []int64) []*big.Int {
	out := make([]*big.Int, VectorLength)
	for i := range out {
		out[i] = big.NewInt(cycle[i%len(cycle)])
	}
	return out
}

func ascending32() []int64 {
	c := make([]int64, 32)
	for i := range c {
		c[i] = int64(i + 1)
	}
	return c
}

func descending32() []int64 {
	c := make([]int64, 32)
	for i := range c {
		c[i] = int64(32 - i)
	}
	return c
}

// detScalar is a simple deterministic "random-ish" scalar generator.
func detScalar(tag string, i, j int) *big.Int {
	var ctr [16]byte
	binary.BigEndian.PutUint64(ctr[:8], uint64(i))
	binary.BigEndian.PutUint64(ctr[8:], uint64(j))
	h := sha256.Sum256(append([]byte("refmodel-selftest/"+tag), ctr[:]...))
	return frRed(new(big.Int).SetBytes(h[:]))
}

func detPoly(tag string, i int) []*big.Int {
	out := make([]*big.Int, VectorLength)
	for j := range out {
		out[j] = detScalar(tag, i, j)
	}
	return out
}

type selfCheck struct {
	name string
	fn   func() error
}

func selfChecks() []selfCheck {
	return []selfCheck{
		{"curve constants", checkCurveConstants},
		{"group law", checkGroupLaw},
		{"montgomery limbs", checkMont},
		{"point decoding", checkDecode},
		{"CRS vectors", checkCRS},
		{"transcript vectors", checkTranscript},
		{"commit vs naive MSM", checkCommit},
		{"barycentric weights", checkWeights},
		{"barycentric evaluation", checkBarycentric},
		{"divide on domain", checkDivide},
		{"IPA vector", checkIPAVector},
		{"multiproof vector", checkMultiVector},
		{"multiproof 3 openings", checkMultiThree},
	}
}

// SelfTest runs every known-answer and internal-consistency check and
// returns the first mismatch.
func SelfTest() error {
	for _, c := range selfChecks() {
		if err := c.fn(); err != nil {
			return fmt.Errorf("refmodel selftest: %s: %w", c.name, err)
		}
	}
	return nil
}

func checkCurveConstants() error {
	if !P.ProbablyPrime(32) || !R.ProbablyPrime(32) {
		return errors.New("P or R is not prime")
	}
	if !Generator().IsOnCurve() {
		return errors.New("generator is not on the curve (wrong d?)")
	}
	if !Identity().IsOnCurve() {
		return errors.New("identity is not on the curve")
	}
	// a and d must both be non-squares (so d*x^2-1 and a*x^2-1 never vanish).
	if big.Jacobi(curveA, P) != -1 || big.Jacobi(curveD, P) != -1 {
		return errors.New("a or d is a square")
	}
	if fpAdd(curveA, bigFive).Sign() != 0 {
		return errors.New("a != -5")
	}
	g := Generator()
	rg := g.Mul(R)
	x, y := rg.Affine()
	if x.Sign() != 0 || y.Cmp(bigOne) != 0 {
		return errors.New("R*G is not the identity")
	}
	if !rg.Equal(Identity()) {
		return errors.New("R*G does not compare equal to the identity")
	}
	// generator round-trips and is in the subgroup
	e := g.Encode()
	d, err := Decode(e[:])
	if err != nil {
		return fmt.Errorf("generator does not decode: %w", err)
	}
	if !d.Equal(g) {
		return errors.New("generator round trip mismatch")
	}
	return nil
}

func checkGroupLaw() error {
	g := Generator()
	k1, k2 := detScalar("grp", 0, 0), detScalar("grp", 0, 1)
	p1, p2 := g.Mul(k1), g.Mul(k2)
	if !p1.IsOnCurve() || !p2.IsOnCurve() {
		return errors.New("multiple of G off curve")
	}
	if !p1.Add(p2).Equal(g.Mul(frAdd(k1, k2))) {
		return errors.New("k1*G + k2*G != (k1+k2)*G")
	}
	if !p1.Sub(p2).Equal(g.Mul(frSub(k1, k2))) {
		return errors.New("k1*G - k2*G != (k1-k2)*G")
	}
	if !p1.Double().Equal(p1.Add(p1)) {
		return errors.New("double != add")
	}
	ax, ay := p1.Double().Affine()
	bx, by := p1.Add(p1).Affine()
	if ax.Cmp(bx) != 0 || ay.Cmp(by) != 0 {
		return errors.New("double and add give different representatives")
	}
	if !p1.Mul(k2).Equal(g.Mul(frMul(k1, k2))) {
		return errors.New("k2*(k1*G) != (k1*k2)*G")
	}
	if !p1.Add(p1.Neg()).Equal(Identity()) {
		return errors.New("P + (-P) != 0")
	}
	if p1.Equal(p2) {
		return errors.New("distinct points compare equal")
	}
	// Banderwagon: (x,y) ~ (-x,-y)
	x, y := p1.Affine()
	tw := FromAffine(fpNeg(x), fpNeg(y))
	if !tw.IsOnCurve() || !tw.Equal(p1) || tw.Encode() != p1.Encode() {
		return errors.New("(x,y) and (-x,-y) are not identified")
	}
	if MapToScalarField(tw).Cmp(MapToScalarField(p1)) != 0 {
		return errors.New("MapToScalarField not class invariant")
	}
	// projective representation must not matter
	if MapToScalarField(p1).Cmp(MapToScalarField(FromAffine(x, y))) != 0 {
		return errors.New("MapToScalarField depends on the representation")
	}
	u := EncodeUncompressed(p1)
	if new(big.Int).SetBytes(u[:32]).Cmp(x) != 0 || new(big.Int).SetBytes(u[32:]).Cmp(y) != 0 {
		return errors.New("EncodeUncompressed mismatch")
	}
	// shared-doubling MSM == naive MSM
	pts := []Point{g, p1, p2}
	sc := []*big.Int{k2, k1, big.NewInt(0)}
	if !msmShared(pts, sc).Equal(MSM(pts, sc)) {
		return errors.New("msmShared != MSM")
	}
	return nil
}

func checkMont() error {
	for _, m := range []*big.Int{P, R} {
		one := MontLimbs(bigOne, m)
		if FromMontLimbs(one, m).Cmp(bigOne) != 0 {
			return errors.New("mont(1) does not round trip")
		}
		v := frRed(detScalar("mont", 0, 0))
		if FromMontLimbs(MontLimbs(v, m), m).Cmp(new(big.Int).Mod(v, m)) != 0 {
			return errors.New("mont round trip")
		}
	}
	// Montgomery form of 1 in F_P (= 2^256 mod P), a well-known constant.
	want := [4]uint64{0x00000001fffffffe, 0x5884b7fa00034802, 0x998c4fefecbc4ff5, 0x1824b159acc5056f}
	if MontLimbs(bigOne, P) != want {
		return fmt.Errorf("mont(1) mod P = %x", MontLimbs(bigOne, P))
	}
	return nil
}

// findNonSubgroupX searches for the smallest x >= 1 which is the abscissa of
// a curve point outside the order-2R subgroup.
func findNonSubgroupX() *big.Int {
	for i := int64(1); ; i++ {
		x := big.NewInt(i)
		if _, ok := yFromX(x); ok && !inSubgroupX(x) {
			return x
		}
	}
}

// findOffCurveX searches for the smallest x >= 1 that is not an abscissa.
func findOffCurveX() *big.Int {
	for i := int64(1); ; i++ {
		x := big.NewInt(i)
		if _, ok := yFromX(x); !ok {
			return x
		}
	}
}

func be32(x *big.Int) []byte {
	var b [32]byte
	x.FillBytes(b[:])
	return b[:]
}

func checkDecode() error {
	if _, err := Decode(make([]byte, 31)); !errors.Is(err, ErrInvalidLength) {
		return fmt.Errorf("31 bytes: got %v", err)
	}
	if _, err := Decode(make([]byte, 33)); !errors.Is(err, ErrInvalidLength) {
		return fmt.Errorf("33 bytes: got %v", err)
	}
	// x = 0 is the identity class
	id, err := Decode(make([]byte, 32))
	if err != nil || !id.Equal(Identity()) {
		return fmt.Errorf("x=0 should decode to the identity (err=%v)", err)
	}
	// non canonical: P itself and P + x(G)
	if _, err := Decode(be32(P)); !errors.Is(err, ErrNonCanonical) {
		return fmt.Errorf("x=P: got %v", err)
	}
	ge := Generator().Encode()
	big1 := new(big.Int).Add(new(big.Int).SetBytes(ge[:]), P)
	if big1.BitLen() <= 256 {
		if _, err := Decode(be32(big1)); !errors.Is(err, ErrNonCanonical) {
			return fmt.Errorf("x=P+gx: got %v", err)
		}
	}
	if _, err := Decode(bytes.Repeat([]byte{0xff}, 32)); !errors.Is(err, ErrNonCanonical) {
		return fmt.Errorf("x=2^256-1: got %v", err)
	}
	off := findOffCurveX()
	if _, err := Decode(be32(off)); !errors.Is(err, ErrNotOnCurve) {
		return fmt.Errorf("off-curve x=%v: got %v", off, err)
	}
	ns := findNonSubgroupX()
	if _, err := Decode(be32(ns)); !errors.Is(err, ErrNotInSubgroup) {
		return fmt.Errorf("non-subgroup x=%v: got %v", ns, err)
	}
	// ... and that point really is outside: R*P is not in {(0,1),(0,-1)}
	y, _ := yFromX(ns)
	q := FromAffine(ns, y)
	if !q.IsOnCurve() {
		return errors.New("non-subgroup witness is off curve")
	}
	// The curve group is Z2 x Z2 x Z_R: besides (0,-1) the two other points of
	// order 2 lie at infinity. R*q kills the Z_R component, so q is outside
	// the Banderwagon group {subgroup, subgroup+(0,-1)} iff R*q is one of the
	// points at infinity (Z = 0) rather than (0,1) or (0,-1).
	if rq := q.Mul(R); rq.Z.Sign() != 0 {
		return errors.New("non-subgroup witness: R*q is an affine point")
	}
	// ... whereas for a subgroup element R*p = (0, +-1).
	if rp := FromAffine(genX, fpNeg(genY)).Mul(R); rp.Z.Sign() == 0 || rp.X.Sign() != 0 {
		return errors.New("R*(gx,-gy) is not (0,+-1)")
	}
	// a valid encoding decodes to the same class, and -x also decodes (it is
	// the encoding of the negated element)
	p := Generator().Mul(detScalar("dec", 0, 0))
	e := p.Encode()
	d, err := Decode(e[:])
	if err != nil || !d.Equal(p) || d.Encode() != e {
		return fmt.Errorf("round trip failed (err=%v)", err)
	}
	if _, dy := d.Affine(); !lexLargest(dy) {
		return errors.New("decoded y is not the lexicographically largest root")
	}
	ne := p.Neg().Encode()
	if new(big.Int).Add(new(big.Int).SetBytes(e[:]), new(big.Int).SetBytes(ne[:])).Cmp(P) != 0 {
		return errors.New("enc(-P) != -enc(P)")
	}
	// scalars
	if _, err := DecodeScalarLECanonical(make([]byte, 31)); !errors.Is(err, ErrInvalidLength) {
		return errors.New("short scalar accepted")
	}
	rle := reverse(be32(R))
	if _, err := DecodeScalarLECanonical(rle); !errors.Is(err, ErrNonCanonical) {
		return errors.New("scalar R accepted")
	}
	if DecodeScalarLEReduce(rle).Sign() != 0 {
		return errors.New("R mod R != 0")
	}
	rm1 := new(big.Int).Sub(R, bigOne)
	enc := EncodeScalarLE(rm1)
	if v, err := DecodeScalarLECanonical(enc[:]); err != nil || v.Cmp(rm1) != 0 {
		return errors.New("scalar R-1 rejected")
	}
	if enc[0] != 0xe0 || enc[31] != 0x1c { // R-1 = 0x1cfb69d4...e7e0, little endian
		return fmt.Errorf("scalar endianness: %x", enc)
	}
	return nil
}

func checkCRS() error {
	g := crs()
	if len(g) != VectorLength {
		return fmt.Errorf("got %d points", len(g))
	}
	if s := pointHex(g[0]); s != vecCRSFirst {
		return fmt.Errorf("first point %s", s)
	}
	if s := pointHex(g[255]); s != vecCRSLast {
		return fmt.Errorf("last point %s", s)
	}
	h := sha256.New()
	gen := Generator()
	for i, p := range g {
		if !p.IsOnCurve() {
			return fmt.Errorf("point %d off curve", i)
		}
		if p.Equal(gen) {
			return fmt.Errorf("point %d is the generator", i)
		}
		e := p.Encode()
		h.Write(e[:])
	}
	if s := hx(h.Sum(nil)); s != vecCRSDigest {
		return fmt.Errorf("digest %s", s)
	}
	return nil
}

func checkTranscript() error {
	sc := []byte("simple_challenge")

	tr := NewTranscript("simple_protocol")
	c1 := tr.ChallengeScalar(sc)
	c2 := tr.ChallengeScalar(sc)
	if c1.Cmp(c2) == 0 {
		return errors.New("vector 0: two challenges are equal")
	}
	if s := scalarHex(c1); s != vecTranscript1 {
		return fmt.Errorf("vector 1: %s", s)
	}

	tr = NewTranscript("simple_protocol")
	five := big.NewInt(5)
	tr.AppendScalar(five, []byte("five"))
	tr.AppendScalar(five, []byte("five again"))
	if s := scalarHex(tr.ChallengeScalar(sc)); s != vecTranscript2 {
		return fmt.Errorf("vector 2: %s", s)
	}

	tr = NewTranscript("simple_protocol")
	one := big.NewInt(1)
	minusOne := new(big.Int).Sub(R, bigOne)
	tr.AppendScalar(minusOne, []byte("-1"))
	tr.DomainSep([]byte("separate me"))
	tr.AppendScalar(minusOne, []byte("-1 again"))
	tr.DomainSep([]byte("separate me again"))
	tr.AppendScalar(one, []byte("now 1"))
	if s := scalarHex(tr.ChallengeScalar(sc)); s != vecTranscript3 {
		return fmt.Errorf("vector 3: %s", s)
	}

	tr = NewTranscript("simple_protocol")
	tr.AppendPoint(Generator(), []byte("generator"))
	if s := scalarHex(tr.ChallengeScalar(sc)); s != vecTranscript4 {
		return fmt.Errorf("vector 4: %s", s)
	}
	return nil
}

func checkCommit() error {
	v := detPoly("commit", 0)
	v[3] = new(big.Int)
	v[4] = big.NewInt(1)
	v[5] = new(big.Int).Sub(R, bigOne)
	if !Commit(v).Equal(MSM(crs(), v)) {
		return errors.New("Commit != MSM(CRS, v) on a full vector")
	}
	short := v[:5]
	if !Commit(short).Equal(MSM(crs()[:5], short)) {
		return errors.New("Commit != MSM on a short vector")
	}
	if !Commit(nil).Equal(Identity()) {
		return errors.New("Commit(nil) != identity")
	}
	return nil
}

func checkWeights() error {
	w := domainWeights()
	for _, i := range []int{0, 1, 2, 100, 127, 128, 254, 255} {
		prod := big.NewInt(1)
		for j := 0; j < VectorLength; j++ {
			if j != i {
				prod = frMul(prod, frRed(big.NewInt(int64(i-j))))
			}
		}
		if prod.Cmp(w.aPrime[i]) != 0 {
			return fmt.Errorf("A'(%d) closed form != product", i)
		}
		if frMul(w.aPrime[i], w.aPrimeInv[i]).Cmp(bigOne) != 0 {
			return fmt.Errorf("A'(%d) inverse", i)
		}
	}
	return nil
}

func cubic(z *big.Int) *big.Int { // z^3 + 2z + 5
	z3 := frMul(z, frMul(z, z))
	return frAdd(frAdd(z3, frMul(big.NewInt(2), z)), big.NewInt(5))
}

func checkBarycentric() error {
	f := make([]*big.Int, VectorLength)
	for i := range f {
		f[i] = cubic(big.NewInt(int64(i)))
	}
	for _, z := range []*big.Int{big.NewInt(256), big.NewInt(2101), detScalar("bary", 0, 0), new(big.Int).Sub(R, bigOne)} {
		b := BVector(z)
		if got := InnerProd(f, b); got.Cmp(cubic(z)) != 0 {
			return fmt.Errorf("f(%v): got %v", z, got)
		}
		sum := new(big.Int)
		for _, c := range b {
			sum = frAdd(sum, c)
		}
		if sum.Cmp(bigOne) != 0 {
			return errors.New("Lagrange coefficients do not sum to 1")
		}
	}
	for _, z := range []int64{0, 1, 200, 255} {
		if got := InnerProd(f, BVector(big.NewInt(z))); got.Cmp(f[z]) != 0 {
			return fmt.Errorf("in-domain f(%d)", z)
		}
	}
	return nil
}

func checkDivide() error {
	w := domainWeights()
	// (a) low-degree polynomial in coefficient form, synthetic division.
	coef := make([]*big.Int, 7)
	for i := range coef {
		coef[i] = detScalar("div-coef", 0, i)
	}
	eval := func(c []*big.Int, x int) *big.Int {
		acc := new(big.Int)
		xb := big.NewInt(int64(x))
		for i := len(c) - 1; i >= 0; i-- {
			acc = frAdd(frMul(acc, xb), c[i])
		}
		return acc
	}
	f := make([]*big.Int, VectorLength)
	for i := range f {
		f[i] = eval(coef, i)
	}
	for _, k := range []int{0, 1, 77, 255} {
		// synthetic division of f(X) - f(k) by (X - k)
		n := len(coef)
		qc := make([]*big.Int, n-1)
		carry := new(big.Int)
		kb := big.NewInt(int64(k))
		for i := n - 1; i >= 1; i-- {
			carry = frAdd(coef[i], frMul(carry, kb))
			qc[i-1] = carry
		}
		q := DivideOnDomain(uint8(k), f)
		for i := 0; i < VectorLength; i++ {
			if q[i].Cmp(eval(qc, i)) != 0 {
				return fmt.Errorf("low-degree: k=%d, q[%d] mismatch", k, i)
			}
		}
	}
	// (b) full-degree random polynomial: pointwise identity + degree condition
	// (the X^255 coefficient of the interpolant, sum_i q_i/A'(i), vanishes).
	g := detPoly("div", 0)
	for _, k := range []int{0, 5, 128, 255} {
		q := DivideOnDomain(uint8(k), g)
		lead := new(big.Int)
		for i := 0; i < VectorLength; i++ {
			if i != k {
				lhs := frMul(q[i], frRed(big.NewInt(int64(i-k))))
				if lhs.Cmp(frSub(g[i], g[k])) != 0 {
					return fmt.Errorf("full-degree: k=%d, identity fails at %d", k, i)
				}
			}
			lead = frAdd(lead, frMul(q[i], w.aPrimeInv[i]))
		}
		if lead.Sign() != 0 {
			return fmt.Errorf("full-degree: k=%d, quotient has degree 255", k)
		}
		// and q(z)*(z-k) == g(z) - g(k) at an outside point
		z := detScalar("div-z", 0, k)
		b := BVector(z)
		lhs := frMul(InnerProd(q, b), frSub(z, big.NewInt(int64(k))))
		if lhs.Cmp(frSub(InnerProd(g, b), g[k])) != 0 {
			return fmt.Errorf("full-degree: k=%d, identity fails outside the domain", k)
		}
	}
	return nil
}

func checkIPAVector() error {
	poly := repeatPoly(ascending32())
	z := big.NewInt(2101)
	c := Commit(poly)
	if s := pointHex(c); s != vecIPACommitment {
		return fmt.Errorf("commitment %s", s)
	}
	y := InnerProd(poly, BarycentricCoeffs(z))
	if s := scalarHex(y); s != vecIPAOutput {
		return fmt.Errorf("output point %s", s)
	}
	ptr := NewTranscript("test")
	proof := IPAProve(ptr, c, poly, z)
	pState := ptr.ChallengeScalar([]byte("state"))
	if s := scalarHex(pState); s != vecIPAState {
		return fmt.Errorf("prover transcript state %s", s)
	}
	pb := proof.Bytes()
	if len(pb) != ipaProofSize || hx(pb) != vecIPAProof {
		return fmt.Errorf("proof bytes mismatch: %x", pb)
	}
	vtr := NewTranscript("test")
	ok, err := IPAVerify(vtr, c, proof, z, y)
	if err != nil || !ok {
		return fmt.Errorf("valid proof rejected (ok=%v err=%v)", ok, err)
	}
	if vtr.ChallengeScalar([]byte("state")).Cmp(pState) != 0 {
		return errors.New("verifier transcript state differs")
	}
	ok, err = IPAVerify(NewTranscript("test"), c, proof, z, frAdd(y, bigOne))
	if err != nil || ok {
		return fmt.Errorf("wrong result accepted (ok=%v err=%v)", ok, err)
	}
	parsed, err := ParseIPAProof(pb)
	if err != nil || !bytes.Equal(parsed.Bytes(), pb) {
		return fmt.Errorf("ParseIPAProof round trip (err=%v)", err)
	}
	ok, err = IPAVerify(NewTranscript("test"), c, parsed, z, y)
	if err != nil || !ok {
		return errors.New("parsed proof rejected")
	}
	if _, err := ParseIPAProof(pb[:len(pb)-1]); err == nil {
		return errors.New("short IPA proof parsed")
	}
	bad := IPAProof{L: proof.L[:7], R: proof.R, A: proof.A}
	if ok, err := IPAVerify(NewTranscript("test"), c, bad, z, y); err == nil || ok {
		return errors.New("malformed proof shape accepted")
	}
	return nil
}

func checkMultiVector() error {
	polyA := repeatPoly(ascending32())
	polyB := repeatPoly(descending32())
	cA, cB := Commit(polyA), Commit(polyB)
	Cs := []Point{cA, cB}
	fs := [][]*big.Int{polyA, polyB}
	zs := []uint8{0, 0}
	ys := []*big.Int{big.NewInt(1), big.NewInt(32)}

	ptr := NewTranscript("test")
	proof, err := MultiProve(ptr, Cs, fs, zs)
	if err != nil {
		return err
	}
	if s := scalarHex(ptr.ChallengeScalar([]byte("state"))); s != vecMultiState {
		return fmt.Errorf("prover transcript state %s", s)
	}
	pb := proof.Bytes()
	if len(pb) != multiProofSize || hx(pb) != vecMultiProof {
		return fmt.Errorf("proof bytes mismatch: %x", pb)
	}
	ok, err := MultiVerify(NewTranscript("test"), proof, Cs, ys, zs)
	if err != nil || !ok {
		return fmt.Errorf("valid proof rejected (ok=%v err=%v)", ok, err)
	}
	ok, err = MultiVerify(NewTranscript("test"), proof, Cs, []*big.Int{big.NewInt(1), big.NewInt(31)}, zs)
	if err != nil || ok {
		return fmt.Errorf("wrong y accepted (ok=%v err=%v)", ok, err)
	}
	ok, err = MultiVerify(NewTranscript("test"), proof, Cs, ys, []uint8{0, 1})
	if err != nil || ok {
		return fmt.Errorf("wrong z accepted (ok=%v err=%v)", ok, err)
	}
	// shape errors
	if ok, err := MultiVerify(NewTranscript("test"), proof, nil, nil, nil); err == nil || ok {
		return errors.New("0 openings accepted by verifier")
	}
	if ok, err := MultiVerify(NewTranscript("test"), proof, Cs, ys[:1], zs); err == nil || ok {
		return errors.New("length mismatch accepted by verifier")
	}
	if _, err := MultiProve(NewTranscript("test"), nil, nil, nil); err == nil {
		return errors.New("0 openings accepted by prover")
	}
	if _, err := MultiProve(NewTranscript("test"), Cs, fs[:1], zs); err == nil {
		return errors.New("length mismatch accepted by prover")
	}
	if _, err := MultiProve(NewTranscript("test"), Cs[:1], [][]*big.Int{polyA[:255]}, zs[:1]); err == nil {
		return errors.New("short polynomial accepted by prover")
	}
	return nil
}

func checkMultiThree() error {
	zs := []uint8{0, 7, 255}
	fs := make([][]*big.Int, 3)
	Cs := make([]Point, 3)
	ys := make([]*big.Int, 3)
	for i := range fs {
		fs[i] = detPoly("multi3", i)
		Cs[i] = Commit(fs[i])
		ys[i] = fs[i][zs[i]]
	}
	proof, err := MultiProve(NewTranscript("multiproof"), Cs, fs, zs)
	if err != nil {
		return err
	}
	ok, err := MultiVerify(NewTranscript("multiproof"), proof, Cs, ys, zs)
	if err != nil || !ok {
		return fmt.Errorf("valid proof rejected (ok=%v err=%v)", ok, err)
	}
	pb := proof.Bytes()
	parsed, err := ParseMultiProof(pb)
	if err != nil {
		return fmt.Errorf("ParseMultiProof: %w", err)
	}
	if !bytes.Equal(parsed.Bytes(), pb) {
		return errors.New("ParseMultiProof round trip mismatch")
	}
	ok, err = MultiVerify(NewTranscript("multiproof"), parsed, Cs, ys, zs)
	if err != nil || !ok {
		return errors.New("parsed proof rejected")
	}
	// different transcript label => reject
	ok, err = MultiVerify(NewTranscript("other"), proof, Cs, ys, zs)
	if err != nil || ok {
		return errors.New("proof accepted under another protocol label")
	}
	// parse failures
	if _, err := ParseMultiProof(pb[:575]); !errors.Is(err, ErrInvalidLength) {
		return errors.New("575-byte proof parsed")
	}
	if _, err := ParseMultiProof(append(append([]byte{}, pb...), 0)); !errors.Is(err, ErrInvalidLength) {
		return errors.New("577-byte proof parsed")
	}
	bad := append([]byte{}, pb...)
	copy(bad[32*5:], be32(findNonSubgroupX())) // L_5 outside the subgroup
	if _, err := ParseMultiProof(bad); !errors.Is(err, ErrNotInSubgroup) {
		return fmt.Errorf("non-subgroup point in proof: got %v", err)
	}
	bad = append([]byte{}, pb...)
	copy(bad[544:], reverse(be32(R))) // scalar = R
	if _, err := ParseMultiProof(bad); !errors.Is(err, ErrNonCanonical) {
		return fmt.Errorf("non-canonical scalar in proof: got %v", err)
	}
	return nil
}
