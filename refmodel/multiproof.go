package refmodel

import (
	"errors"
	"fmt"
	"math/big"
)

func powers(r *big.Int, n int) []*big.Int {
	out := make([]*big.Int, n)
	out[0] = big.NewInt(1)
	for i := 1; i < n; i++ {
		out[i] = frMul(out[i-1], r)
	}
	return out
}

// MultiProve creates a multiproof that f_i(z_i) = f_i[z_i] for every i, where
// Cs[i] is the commitment to fs[i].
func MultiProve(tr *Transcript, Cs []Point, fs [][]*big.Int, zs []uint8) (MultiProof, error) {
	tr.DomainSep([]byte("multiproof"))

	for _, f := range fs {
		if len(f) != VectorLength {
			return MultiProof{}, fmt.Errorf("refmodel: polynomial length %d, want %d", len(f), VectorLength)
		}
	}
	if len(Cs) != len(fs) {
		return MultiProof{}, fmt.Errorf("refmodel: %d commitments but %d polynomials", len(Cs), len(fs))
	}
	if len(Cs) != len(zs) {
		return MultiProof{}, fmt.Errorf("refmodel: %d commitments but %d points", len(Cs), len(zs))
	}
	n := len(Cs)
	if n == 0 {
		return MultiProof{}, errors.New("refmodel: cannot create a multiproof with 0 openings")
	}

	// reduced copies of the polynomials
	polys := make([][]*big.Int, n)
	for i, f := range fs {
		polys[i] = make([]*big.Int, VectorLength)
		for j := range f {
			polys[i][j] = frRed(f[j])
		}
	}

	for i := 0; i < n; i++ {
		tr.AppendPoint(Cs[i], []byte("C"))
		tr.AppendScalar(big.NewInt(int64(zs[i])), []byte("z"))
		tr.AppendScalar(polys[i][zs[i]], []byte("y"))
	}
	r := tr.ChallengeScalar([]byte("r"))
	rp := powers(r, n)

	// g(X) = sum_i r^i (f_i(X) - y_i)/(X - z_i)
	g := zeroVec()
	for i := 0; i < n; i++ {
		q := DivideOnDomain(zs[i], polys[i])
		for j := 0; j < VectorLength; j++ {
			g[j] = frAdd(g[j], frMul(rp[i], q[j]))
		}
	}
	D := Commit(g)
	tr.AppendPoint(D, []byte("D"))
	t := tr.ChallengeScalar([]byte("t"))

	// h(X) = sum_i r^i f_i(X)/(t - z_i)
	h := zeroVec()
	for i := 0; i < n; i++ {
		c := frMul(rp[i], frInv(frSub(t, big.NewInt(int64(zs[i])))))
		for j := 0; j < VectorLength; j++ {
			h[j] = frAdd(h[j], frMul(c, polys[i][j]))
		}
	}
	E := Commit(h)
	tr.AppendPoint(E, []byte("E"))

	hMinusG := make([]*big.Int, VectorLength)
	for j := range hMinusG {
		hMinusG[j] = frSub(h[j], g[j])
	}
	ip := IPAProve(tr, E.Sub(D), hMinusG, t)
	return MultiProof{D: D, IPA: ip}, nil
}

// MultiVerify checks a multiproof that the polynomial committed to by Cs[i]
// evaluates to ys[i] at zs[i], for every i.
func MultiVerify(tr *Transcript, proof MultiProof, Cs []Point, ys []*big.Int, zs []uint8) (bool, error) {
	tr.DomainSep([]byte("multiproof"))

	if len(Cs) != len(ys) {
		return false, fmt.Errorf("refmodel: %d commitments but %d evaluations", len(Cs), len(ys))
	}
	if len(Cs) != len(zs) {
		return false, fmt.Errorf("refmodel: %d commitments but %d points", len(Cs), len(zs))
	}
	n := len(Cs)
	if n == 0 {
		return false, errors.New("refmodel: number of openings is zero")
	}

	for i := 0; i < n; i++ {
		tr.AppendPoint(Cs[i], []byte("C"))
		tr.AppendScalar(big.NewInt(int64(zs[i])), []byte("z"))
		tr.AppendScalar(ys[i], []byte("y"))
	}
	r := tr.ChallengeScalar([]byte("r"))
	rp := powers(r, n)

	tr.AppendPoint(proof.D, []byte("D"))
	t := tr.ChallengeScalar([]byte("t"))

	// E = sum_i (r^i/(t - z_i)) C_i ,  g2(t) = sum_i r^i y_i/(t - z_i)
	coeffs := make([]*big.Int, n)
	g2t := new(big.Int)
	for i := 0; i < n; i++ {
		coeffs[i] = frMul(rp[i], frInv(frSub(t, big.NewInt(int64(zs[i])))))
		g2t = frAdd(g2t, frMul(coeffs[i], ys[i]))
	}
	E := msmShared(Cs, coeffs)
	tr.AppendPoint(E, []byte("E"))

	ok, err := IPAVerify(tr, E.Sub(proof.D), proof.IPA, t, g2t)
	if err != nil {
		return false, fmt.Errorf("refmodel: could not check IPA proof: %w", err)
	}
	return ok, nil
}

func zeroVec() []*big.Int {
	out := make([]*big.Int, VectorLength)
	for i := range out {
		out[i] = new(big.Int)
	}
	return out
}
