package refmodel

import "math/big"

func reverse(b []byte) []byte {
	out := make([]byte, len(b))
	for i := range b {
		out[len(b)-1-i] = b[i]
	}
	return out
}

// EncodeScalarLE returns the 32-byte little-endian encoding of s mod R.
func EncodeScalarLE(s *big.Int) [32]byte {
	var be [32]byte
	frRed(s).FillBytes(be[:])
	var out [32]byte
	copy(out[:], reverse(be[:]))
	return out
}

// DecodeScalarLECanonical parses exactly 32 little-endian bytes and accepts
// iff the integer is < R. The input slice is not modified.
func DecodeScalarLECanonical(b []byte) (*big.Int, error) {
	if len(b) != 32 {
		return nil, ErrInvalidLength
	}
	v := new(big.Int).SetBytes(reverse(b))
	if v.Cmp(R) >= 0 {
		return nil, ErrNonCanonical
	}
	return v, nil
}

// DecodeScalarLEReduce interprets b (any length) as a little-endian integer
// and reduces it mod R. The input slice is not modified.
func DecodeScalarLEReduce(b []byte) *big.Int {
	v := new(big.Int).SetBytes(reverse(b))
	return v.Mod(v, R)
}
