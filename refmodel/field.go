// Package refmodel is an independent, deliberately simple reference
// implementation (an oracle) of the cryptography used by Verkle trees:
// the Bandersnatch / Banderwagon group, Pedersen vector commitments over a
// 256-point CRS, the Fiat-Shamir transcript, the inner-product argument (IPA)
// and the multi-opening proof ("multiproof") built on top of it.
//
// Everything is written from the mathematical description of the protocol on
// top of math/big. Clarity beats speed everywhere; nothing here is constant
// time and nothing here should be used for anything but testing.
//
// Conventions: scalars are *big.Int in [0, R), base-field coordinates are
// *big.Int in [0, P). Values returned by the package must be treated as
// immutable (they may be shared with internal caches).
package refmodel

import "math/big"

func mustInt(s string, base int) *big.Int {
	v, ok := new(big.Int).SetString(s, base)
	if !ok {
		panic("refmodel: bad integer constant " + s)
	}
	return v
}

var (
	// P is the base field modulus (the BLS12-381 scalar field order).
	P = mustInt("52435875175126190479447740508185965837690552500527637822603658699938581184513", 10)
	// R is the order of the prime-order subgroup, i.e. the scalar field modulus.
	R = mustInt("13108968793781547619861935127046491459309155893440570251786403306729687672801", 10)

	// Twisted Edwards coefficients: a*x^2 + y^2 = 1 + d*x^2*y^2.
	curveA = new(big.Int).Sub(P, big.NewInt(5))
	curveD = func() *big.Int {
		num := mustInt("138827208126141220649022263972958607803", 10)
		den := mustInt("171449701953573178309673572579671231137", 10)
		return fpMul(num, fpInv(den))
	}()

	genX = mustInt("29c132cc2c0b34c5743711777bbe42f32b79c022ad998465e1e71866a252ae18", 16)
	genY = mustInt("2a6c669eda123e0f157d8b50badcd586358cad81eee464605e3167b6cc974166", 16)

	// (P-1)/2: y is "lexicographically largest" iff y > halfP.
	halfP = new(big.Int).Rsh(new(big.Int).Sub(P, big.NewInt(1)), 1)

	bigOne  = big.NewInt(1)
	bigFive = big.NewInt(5) // -a
)

// ---- arithmetic mod P ----

func fpRed(x *big.Int) *big.Int { return new(big.Int).Mod(x, P) }

func fpAdd(a, b *big.Int) *big.Int { z := new(big.Int).Add(a, b); return z.Mod(z, P) }
func fpSub(a, b *big.Int) *big.Int { z := new(big.Int).Sub(a, b); return z.Mod(z, P) }
func fpMul(a, b *big.Int) *big.Int { z := new(big.Int).Mul(a, b); return z.Mod(z, P) }
func fpNeg(a *big.Int) *big.Int    { z := new(big.Int).Neg(a); return z.Mod(z, P) }

// fpInv returns a^-1 mod P, with the convention 0^-1 = 0.
func fpInv(a *big.Int) *big.Int { return invMod(a, P) }

// ---- arithmetic mod R ----

func frRed(x *big.Int) *big.Int { return new(big.Int).Mod(x, R) }

func frAdd(a, b *big.Int) *big.Int { z := new(big.Int).Add(a, b); return z.Mod(z, R) }
func frSub(a, b *big.Int) *big.Int { z := new(big.Int).Sub(a, b); return z.Mod(z, R) }
func frMul(a, b *big.Int) *big.Int { z := new(big.Int).Mul(a, b); return z.Mod(z, R) }
func frNeg(a *big.Int) *big.Int    { z := new(big.Int).Neg(a); return z.Mod(z, R) }

// frInv returns a^-1 mod R, with the convention 0^-1 = 0.
func frInv(a *big.Int) *big.Int { return invMod(a, R) }

func invMod(a, m *big.Int) *big.Int {
	x := new(big.Int).Mod(a, m)
	if x.Sign() == 0 {
		return x
	}
	if x.ModInverse(x, m) == nil {
		panic("refmodel: modulus is not prime?")
	}
	return x
}

// two256 = 2^256, the Montgomery radix for 4-limb field elements.
var two256 = new(big.Int).Lsh(big.NewInt(1), 256)

// MontLimbs returns the little-endian 64-bit limbs of x*2^256 mod modulus,
// i.e. the in-memory Montgomery representation of x for a 4-limb field.
func MontLimbs(x, modulus *big.Int) [4]uint64 {
	v := new(big.Int).Mod(x, modulus)
	v.Mul(v, two256)
	v.Mod(v, modulus)
	var out [4]uint64
	mask := new(big.Int).SetUint64(^uint64(0))
	for i := 0; i < 4; i++ {
		out[i] = new(big.Int).And(v, mask).Uint64()
		v.Rsh(v, 64)
	}
	return out
}

// FromMontLimbs is the inverse of MontLimbs: it interprets l as a
// little-endian 4-limb integer m and returns m * 2^-256 mod modulus.
func FromMontLimbs(l [4]uint64, modulus *big.Int) *big.Int {
	v := new(big.Int)
	for i := 3; i >= 0; i-- {
		v.Lsh(v, 64)
		v.Or(v, new(big.Int).SetUint64(l[i]))
	}
	rinv := invMod(two256, modulus)
	v.Mul(v, rinv)
	return v.Mod(v, modulus)
}
