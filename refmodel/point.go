package refmodel

import (
	"errors"
	"math/big"
)

// Errors returned by the decoders.
var (
	ErrInvalidLength = errors.New("refmodel: invalid encoding length")
	ErrNonCanonical  = errors.New("refmodel: non-canonical encoding (value >= modulus)")
	ErrNotOnCurve    = errors.New("refmodel: x is not the abscissa of a curve point")
	ErrNotInSubgroup = errors.New("refmodel: point is not in the prime-order subgroup")
)

// Point is a Bandersnatch point in extended twisted Edwards coordinates:
// x = X/Z, y = Y/Z, T = X*Y/Z. As a Banderwagon element it stands for the
// class {(x,y), (-x,-y)}. Points are values and must be treated as immutable.
// The zero value (nil coordinates) is not a valid point.
type Point struct{ X, Y, Z, T *big.Int }

// Generator returns the Bandersnatch/Banderwagon generator.
func Generator() Point { return FromAffine(genX, genY) }

// Identity returns the neutral element (0,1).
func Identity() Point {
	return Point{X: new(big.Int), Y: big.NewInt(1), Z: big.NewInt(1), T: new(big.Int)}
}

// FromAffine builds a point from affine coordinates. No validation is done
// (the coordinates are only reduced mod P).
func FromAffine(x, y *big.Int) Point {
	xr, yr := fpRed(x), fpRed(y)
	return Point{X: xr, Y: yr, Z: big.NewInt(1), T: fpMul(xr, yr)}
}

// Affine returns (X/Z, Y/Z). With the 0^-1 = 0 convention a point with Z = 0
// maps to (0,0).
func (p Point) Affine() (x, y *big.Int) {
	if p.Z.Cmp(bigOne) == 0 {
		return fpRed(p.X), fpRed(p.Y)
	}
	zi := fpInv(p.Z)
	return fpMul(p.X, zi), fpMul(p.Y, zi)
}

// Add returns p+q using the unified extended-coordinate addition law for a
// general coefficient a:
//
//	x3 = (x1*y2 + y1*x2) / (1 + d*x1*x2*y1*y2)
//	y3 = (y1*y2 - a*x1*x2) / (1 - d*x1*x2*y1*y2)
func (p Point) Add(q Point) Point {
	A := fpMul(p.X, q.X)
	B := fpMul(p.Y, q.Y)
	C := fpMul(fpMul(p.T, q.T), curveD)
	D := fpMul(p.Z, q.Z)
	// E = x1*y2 + y1*x2 (times Z1*Z2)
	E := fpMul(new(big.Int).Add(p.X, p.Y), new(big.Int).Add(q.X, q.Y))
	E.Sub(E, A)
	E.Sub(E, B)
	F := new(big.Int).Sub(D, C)
	G := new(big.Int).Add(D, C)
	H := new(big.Int).Sub(B, mulByA(A))
	return Point{
		X: fpMul(E, F),
		Y: fpMul(G, H),
		Z: fpMul(F, G),
		T: fpMul(E, H),
	}
}

// Double returns 2p (dedicated doubling, general a).
func (p Point) Double() Point {
	A := fpMul(p.X, p.X)
	B := fpMul(p.Y, p.Y)
	C := fpMul(p.Z, p.Z)
	C.Lsh(C, 1)
	D := mulByA(A)
	s := new(big.Int).Add(p.X, p.Y)
	E := fpMul(s, s)
	E.Sub(E, A)
	E.Sub(E, B)
	G := new(big.Int).Add(D, B)
	F := new(big.Int).Sub(G, C)
	H := new(big.Int).Sub(D, B)
	return Point{
		X: fpMul(E, F),
		Y: fpMul(G, H),
		Z: fpMul(F, G),
		T: fpMul(E, H),
	}
}

// mulByA returns a*v, not reduced (|result| < 5P). a = -5 is small, so this
// avoids a full modular multiplication in the hot path.
func mulByA(v *big.Int) *big.Int {
	z := new(big.Int).Mul(v, bigFive)
	return z.Neg(z)
}

// Neg returns -p = (-x, y).
func (p Point) Neg() Point {
	return Point{X: fpNeg(p.X), Y: fpRed(p.Y), Z: fpRed(p.Z), T: fpNeg(p.T)}
}

// Sub returns p-q.
func (p Point) Sub(q Point) Point { return p.Add(q.Neg()) }

// Mul returns k*p by plain left-to-right double-and-add. k is used as given
// (it is NOT reduced mod R); a negative k multiplies -p by |k|.
func (p Point) Mul(k *big.Int) Point {
	if k.Sign() < 0 {
		return p.Neg().Mul(new(big.Int).Neg(k))
	}
	acc := Identity()
	for i := k.BitLen() - 1; i >= 0; i-- {
		acc = acc.Double()
		if k.Bit(i) == 1 {
			acc = acc.Add(p)
		}
	}
	return acc
}

// Equal is Banderwagon equality: {(x1,y1),(-x1,-y1)} == {(x2,y2),(-x2,-y2)}
// iff x1*y2 == x2*y1. The pseudo-point with X = Y = 0 equals nothing.
func (p Point) Equal(q Point) bool {
	x1, y1, x2, y2 := fpRed(p.X), fpRed(p.Y), fpRed(q.X), fpRed(q.Y)
	if x1.Sign() == 0 && y1.Sign() == 0 {
		return false
	}
	if x2.Sign() == 0 && y2.Sign() == 0 {
		return false
	}
	return fpMul(x1, y2).Cmp(fpMul(x2, y1)) == 0
}

// IsOnCurve reports whether the affine point (X/Z, Y/Z) satisfies the curve
// equation. (T is not inspected.)
func (p Point) IsOnCurve() bool {
	x, y := p.Affine()
	return affineOnCurve(x, y)
}

func affineOnCurve(x, y *big.Int) bool {
	x2 := fpMul(x, x)
	y2 := fpMul(y, y)
	lhs := fpAdd(fpMul(curveA, x2), y2)
	rhs := fpAdd(bigOne, fpMul(curveD, fpMul(x2, y2)))
	return lhs.Cmp(rhs) == 0
}

func lexLargest(y *big.Int) bool { return y.Cmp(halfP) > 0 }

// Encode returns the 32-byte compressed Banderwagon encoding: the big-endian
// abscissa of the class representative whose ordinate is lexicographically
// largest.
func (p Point) Encode() [32]byte {
	x, y := p.Affine()
	if !lexLargest(y) {
		x = fpNeg(x)
	}
	var out [32]byte
	x.FillBytes(out[:])
	return out
}

// EncodeUncompressed returns x||y (big-endian, affine) without any sign
// normalisation.
func EncodeUncompressed(p Point) [64]byte {
	x, y := p.Affine()
	var out [64]byte
	x.FillBytes(out[:32])
	y.FillBytes(out[32:])
	return out
}

// Decode parses an untrusted 32-byte compressed encoding, performing every
// check: length, canonical field element, on-curve, subgroup membership.
func Decode(b []byte) (Point, error) {
	if len(b) != 32 {
		return Point{}, ErrInvalidLength
	}
	x := new(big.Int).SetBytes(b)
	if x.Cmp(P) >= 0 {
		return Point{}, ErrNonCanonical
	}
	y, ok := yFromX(x)
	if !ok {
		return Point{}, ErrNotOnCurve
	}
	if !inSubgroupX(x) {
		return Point{}, ErrNotInSubgroup
	}
	return FromAffine(x, y), nil
}

// yFromX solves the curve equation for y: y^2 = (a*x^2 - 1)/(d*x^2 - 1), and
// returns the lexicographically largest root.
func yFromX(x *big.Int) (*big.Int, bool) {
	x2 := fpMul(x, x)
	num := fpSub(fpMul(curveA, x2), bigOne)
	den := fpSub(fpMul(curveD, x2), bigOne)
	yy := fpMul(num, fpInv(den))
	y := fpSqrt(yy)
	if y == nil {
		return nil, false
	}
	if !lexLargest(y) {
		y = fpNeg(y)
	}
	return y, true
}

// inSubgroupX is the Banderwagon subgroup test: the class of a curve point
// with abscissa x has a representative in the prime-order subgroup iff
// 1 - a*x^2 is a non-zero square.
func inSubgroupX(x *big.Int) bool {
	v := fpSub(bigOne, fpMul(curveA, fpMul(x, x)))
	return big.Jacobi(v, P) == 1
}

// fpSqrt returns a square root of v mod P or nil if v is a non-residue.
// Tonelli-Shanks (P-1 = q*2^32 with q odd).
func fpSqrt(v *big.Int) *big.Int {
	v = fpRed(v)
	if v.Sign() == 0 {
		return new(big.Int)
	}
	if big.Jacobi(v, P) != 1 {
		return nil
	}
	ts := tonelli()
	// x = v^((q+1)/2), b = v^q, g = z^q (z a non-residue), m = s
	x := new(big.Int).Exp(v, ts.qPlus1Half, P)
	b := new(big.Int).Exp(v, ts.q, P)
	g := new(big.Int).Set(ts.zq)
	m := ts.s
	for b.Cmp(bigOne) != 0 {
		// least i with b^(2^i) == 1
		i := 0
		t := new(big.Int).Set(b)
		for t.Cmp(bigOne) != 0 {
			t = fpMul(t, t)
			i++
			if i >= m {
				return nil // cannot happen for a residue
			}
		}
		// c = g^(2^(m-i-1))
		c := new(big.Int).Set(g)
		for j := 0; j < m-i-1; j++ {
			c = fpMul(c, c)
		}
		x = fpMul(x, c)
		g = fpMul(c, c)
		b = fpMul(b, g)
		m = i
	}
	if fpMul(x, x).Cmp(v) != 0 {
		panic("refmodel: square root self-check failed")
	}
	return x
}

// MapToScalarField maps a group element to x/y (in the base field), read as
// an integer and reduced mod R. The map is well defined on Banderwagon
// classes since (-x)/(-y) = x/y.
func MapToScalarField(p Point) *big.Int {
	v := fpMul(p.X, fpInv(p.Y)) // Z cancels
	return frRed(v)
}
