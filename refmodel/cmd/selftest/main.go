// Command selftest runs the reference model's known-answer tests.
package main

import (
	"fmt"
	"os"

	"verif/refmodel"
)

func main() {
	if err := refmodel.SelfTest(); err != nil {
		fmt.Println(err)
		os.Exit(1)
	}
	fmt.Println("refmodel selftest OK")
}
