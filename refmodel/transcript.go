package refmodel

import (
	"crypto/sha256"
	"math/big"
)

// Transcript is the Fiat-Shamir transcript.
//
// Semantics: a SHA-256 state is seeded with the protocol label. All appended
// material (label||message, or bare domain-separation labels) is absorbed in
// order. ChallengeScalar absorbs its label, finalises the hash, interprets
// the digest as a little-endian integer reduced mod R, and then starts a
// *fresh, empty* SHA-256 state (the protocol label is NOT re-absorbed) into
// which label||challenge is absorbed as the first item.
//
// Since SHA-256 over a stream equals SHA-256 over the concatenation, the model
// simply keeps the bytes absorbed since the last reset.
type Transcript struct {
	data []byte
}

// NewTranscript starts a transcript for the given protocol label.
func NewTranscript(label string) *Transcript {
	return &Transcript{data: []byte(label)}
}

// DomainSep absorbs a bare label.
func (t *Transcript) DomainSep(label []byte) {
	t.data = append(t.data, label...)
}

// AppendMessage absorbs label||msg.
func (t *Transcript) AppendMessage(msg, label []byte) {
	t.data = append(t.data, label...)
	t.data = append(t.data, msg...)
}

// AppendScalar absorbs label || 32-byte little-endian scalar.
func (t *Transcript) AppendScalar(s *big.Int, label []byte) {
	b := EncodeScalarLE(s)
	t.AppendMessage(b[:], label)
}

// AppendPoint absorbs label || 32-byte compressed point.
func (t *Transcript) AppendPoint(p Point, label []byte) {
	b := p.Encode()
	t.AppendMessage(b[:], label)
}

// ChallengeScalar squeezes a challenge (see the type documentation).
func (t *Transcript) ChallengeScalar(label []byte) *big.Int {
	t.DomainSep(label)
	digest := sha256.Sum256(t.data)
	c := DecodeScalarLEReduce(digest[:])
	t.data = nil // fresh, empty hash state
	t.AppendScalar(c, label)
	return c
}
