package refmodel

import (
	"errors"
	"fmt"
	"math/big"
)

// IPAProof is an inner-product-argument opening proof.
type IPAProof struct {
	L, R []Point
	A    *big.Int
}

// MultiProof is a multi-opening proof.
type MultiProof struct {
	D   Point
	IPA IPAProof
}

const (
	ipaProofSize   = 2*numRounds*32 + 32 // 544
	multiProofSize = 32 + ipaProofSize   // 576
)

// IPAProve proves that the polynomial with evaluations a (committed to by
// commitment = <a, G>) evaluates to <a, b(evalPoint)> at evalPoint.
// It panics if len(a) != 256.
func IPAProve(tr *Transcript, commitment Point, a []*big.Int, evalPoint *big.Int) IPAProof {
	if len(a) != VectorLength {
		panic("refmodel: IPAProve: polynomial must have 256 evaluations")
	}
	tr.DomainSep([]byte("ipa"))

	z := frRed(evalPoint)
	b := BVector(z)
	av := make([]*big.Int, len(a))
	for i := range a {
		av[i] = frRed(a[i])
	}
	y := InnerProd(av, b)

	tr.AppendPoint(commitment, []byte("C"))
	tr.AppendScalar(z, []byte("input point"))
	tr.AppendScalar(y, []byte("output point"))
	w := tr.ChallengeScalar([]byte("w"))
	q := Generator().Mul(w)

	G := crs()
	proof := IPAProof{L: make([]Point, 0, numRounds), R: make([]Point, 0, numRounds)}

	for n := VectorLength; n > 1; n /= 2 {
		h := n / 2
		aL, aR := av[:h], av[h:n]
		bL, bR := b[:h], b[h:n]
		GL, GR := G[:h], G[h:n]

		zL := InnerProd(aR, bL)
		zR := InnerProd(aL, bR)
		L := msmShared(GL, aR).Add(q.Mul(zL))
		Rp := msmShared(GR, aL).Add(q.Mul(zR))
		proof.L = append(proof.L, L)
		proof.R = append(proof.R, Rp)

		tr.AppendPoint(L, []byte("L"))
		tr.AppendPoint(Rp, []byte("R"))
		x := tr.ChallengeScalar([]byte("x"))
		xInv := frInv(x)

		na := make([]*big.Int, h)
		nb := make([]*big.Int, h)
		nG := make([]Point, h)
		for i := 0; i < h; i++ {
			na[i] = frAdd(aL[i], frMul(x, aR[i]))
			nb[i] = frAdd(bL[i], frMul(xInv, bR[i]))
			nG[i] = GL[i].Add(GR[i].Mul(xInv))
		}
		av, b, G = na, nb, nG
	}
	proof.A = av[0]
	return proof
}

// IPAVerify checks an IPA proof that the polynomial committed to by
// commitment evaluates to result at evalPoint.
func IPAVerify(tr *Transcript, commitment Point, proof IPAProof, evalPoint, result *big.Int) (bool, error) {
	tr.DomainSep([]byte("ipa"))

	if len(proof.L) != len(proof.R) {
		return false, errors.New("refmodel: IPA proof: L and R have different lengths")
	}
	if len(proof.L) != numRounds {
		return false, fmt.Errorf("refmodel: IPA proof: got %d rounds, want %d", len(proof.L), numRounds)
	}
	if proof.A == nil {
		return false, errors.New("refmodel: IPA proof: missing scalar")
	}

	z := frRed(evalPoint)
	y := frRed(result)
	b := BVector(z)

	tr.AppendPoint(commitment, []byte("C"))
	tr.AppendScalar(z, []byte("input point"))
	tr.AppendScalar(y, []byte("output point"))
	w := tr.ChallengeScalar([]byte("w"))
	q := Generator().Mul(w)

	// C' = C + y*q + sum x_j*L_j + x_j^-1*R_j
	cp := commitment.Add(q.Mul(y))
	xs := make([]*big.Int, numRounds)
	xInvs := make([]*big.Int, numRounds)
	for j := 0; j < numRounds; j++ {
		tr.AppendPoint(proof.L[j], []byte("L"))
		tr.AppendPoint(proof.R[j], []byte("R"))
		xs[j] = tr.ChallengeScalar([]byte("x"))
		xInvs[j] = frInv(xs[j])
	}
	for j := 0; j < numRounds; j++ {
		cp = cp.Add(proof.L[j].Mul(xs[j])).Add(proof.R[j].Mul(xInvs[j]))
	}

	// After all the folds G_final = <s,G>, b_final = <s,b> with
	// s_i = prod_{j : bit (7-j) of i set} x_j^-1  (round j splits on the
	// (7-j)-th bit of the index and scales the upper half by x_j^-1).
	s := make([]*big.Int, VectorLength)
	for i := 0; i < VectorLength; i++ {
		v := big.NewInt(1)
		for j := 0; j < numRounds; j++ {
			if (i>>(numRounds-1-j))&1 == 1 {
				v = frMul(v, xInvs[j])
			}
		}
		s[i] = v
	}
	g0 := msmShared(crs(), s)
	b0 := InnerProd(s, b)

	a := frRed(proof.A)
	got := g0.Mul(a).Add(q.Mul(frMul(a, b0)))
	return got.Equal(cp), nil
}

// Bytes serialises the proof as L_1..L_n || R_1..R_n || a (LE): 544 bytes
// for a well-formed (8-round) proof.
func (p IPAProof) Bytes() []byte {
	out := make([]byte, 0, ipaProofSize)
	for _, l := range p.L {
		e := l.Encode()
		out = append(out, e[:]...)
	}
	for _, r := range p.R {
		e := r.Encode()
		out = append(out, e[:]...)
	}
	a := EncodeScalarLE(p.A)
	return append(out, a[:]...)
}

// Bytes serialises the proof as D || IPA proof: 576 bytes for a well-formed
// proof.
func (p MultiProof) Bytes() []byte {
	d := p.D.Encode()
	return append(d[:], p.IPA.Bytes()...)
}

// ParseIPAProof succeeds iff len(b) == 544, all 16 points decode under the
// untrusted-input rules and the scalar is canonical.
func ParseIPAProof(b []byte) (IPAProof, error) {
	if len(b) != ipaProofSize {
		return IPAProof{}, ErrInvalidLength
	}
	var p IPAProof
	for i := 0; i < numRounds; i++ {
		pt, err := Decode(b[32*i : 32*i+32])
		if err != nil {
			return IPAProof{}, fmt.Errorf("L[%d]: %w", i, err)
		}
		p.L = append(p.L, pt)
	}
	off := 32 * numRounds
	for i := 0; i < numRounds; i++ {
		pt, err := Decode(b[off+32*i : off+32*i+32])
		if err != nil {
			return IPAProof{}, fmt.Errorf("R[%d]: %w", i, err)
		}
		p.R = append(p.R, pt)
	}
	a, err := DecodeScalarLECanonical(b[2*off:])
	if err != nil {
		return IPAProof{}, fmt.Errorf("a: %w", err)
	}
	p.A = a
	return p, nil
}

// ParseMultiProof succeeds iff len(b) == 576, all 17 points decode under the
// untrusted-input rules and the scalar is canonical.
func ParseMultiProof(b []byte) (MultiProof, error) {
	if len(b) != multiProofSize {
		return MultiProof{}, ErrInvalidLength
	}
	d, err := Decode(b[:32])
	if err != nil {
		return MultiProof{}, fmt.Errorf("D: %w", err)
	}
	ip, err := ParseIPAProof(b[32:])
	if err != nil {
		return MultiProof{}, err
	}
	return MultiProof{D: d, IPA: ip}, nil
}
