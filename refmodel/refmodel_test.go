package refmodel

import (
	"bytes"
	"math/big"
	"sync"
	"testing"
	"time"
)

// Each SelfTest component runs as its own sub-test so that a failure is
// pinpointed; TestSelfTest additionally runs the exported entry point.
func TestSelfChecks(t *testing.T) {
	for _, c := range selfChecks() {
		c := c
		t.Run(c.name, func(t *testing.T) {
			start := time.Now()
			if err := c.fn(); err != nil {
				t.Fatal(err)
			}
			t.Logf("%s: %v", c.name, time.Since(start))
		})
	}
}

func TestSelfTest(t *testing.T) {
	if testing.Short() {
		t.Skip("covered by TestSelfChecks")
	}
	if err := SelfTest(); err != nil {
		t.Fatal(err)
	}
}

func TestIdentityAndEdgeCases(t *testing.T) {
	id := Identity()
	g := Generator()
	if !id.Add(g).Equal(g) || !g.Add(id).Equal(g) {
		t.Fatal("identity is not neutral")
	}
	if !id.Double().Equal(id) {
		t.Fatal("2*0 != 0")
	}
	if !g.Mul(big.NewInt(0)).Equal(id) {
		t.Fatal("0*G != 0")
	}
	if !g.Mul(big.NewInt(-3)).Equal(g.Neg().Mul(big.NewInt(3))) {
		t.Fatal("negative scalar")
	}
	// Mul must not reduce its scalar: (R+1)*G == G still holds in the group,
	// while on a point outside the subgroup reducing would change the result.
	if !g.Mul(new(big.Int).Add(R, bigOne)).Equal(g) {
		t.Fatal("(R+1)*G != G")
	}
	// (0,0) pseudo point is equal to nothing, not even itself
	zz := Point{X: new(big.Int), Y: new(big.Int), Z: big.NewInt(1), T: new(big.Int)}
	if zz.Equal(zz) || zz.Equal(g) || g.Equal(zz) {
		t.Fatal("(0,0) must not compare equal")
	}
	if zz.IsOnCurve() {
		t.Fatal("(0,0) on curve")
	}
	// identity encodes as 32 zero bytes; (0,-1) is the same class
	if e := id.Encode(); e != [32]byte{} {
		t.Fatalf("identity encoding %x", e)
	}
	m := FromAffine(new(big.Int), new(big.Int).Sub(P, bigOne))
	if !m.Equal(id) || m.Encode() != [32]byte{} {
		t.Fatal("(0,-1) is not identified with the identity")
	}
	if MapToScalarField(id).Sign() != 0 {
		t.Fatal("MapToScalarField(identity) != 0")
	}
}

func TestAffineProjectiveInvariance(t *testing.T) {
	g := Generator()
	p := g.Mul(big.NewInt(123456789))
	x, y := p.Affine()
	q := FromAffine(x, y)
	if p.Encode() != q.Encode() || EncodeUncompressed(p) != EncodeUncompressed(q) {
		t.Fatal("encoding depends on the projective representative")
	}
	if fpMul(p.T, p.Z).Cmp(fpMul(p.X, p.Y)) != 0 {
		t.Fatal("extended coordinate invariant T*Z == X*Y violated")
	}
}

func TestScalarCodec(t *testing.T) {
	for _, v := range []*big.Int{big.NewInt(0), big.NewInt(1), big.NewInt(256), new(big.Int).Sub(R, bigOne)} {
		e := EncodeScalarLE(v)
		d, err := DecodeScalarLECanonical(e[:])
		if err != nil || d.Cmp(v) != 0 {
			t.Fatalf("round trip of %v", v)
		}
		if DecodeScalarLEReduce(e[:]).Cmp(v) != 0 {
			t.Fatalf("reduce of %v", v)
		}
	}
	// inputs are never modified
	in := []byte{1, 2, 3, 4, 5, 6, 7, 8, 9, 10, 11, 12, 13, 14, 15, 16, 17, 18, 19, 20, 21, 22, 23, 24, 25, 26, 27, 28, 29, 30, 31, 0}
	cp := append([]byte{}, in...)
	DecodeScalarLEReduce(in)
	_, _ = DecodeScalarLECanonical(in)
	if !bytes.Equal(in, cp) {
		t.Fatal("decoder modified its input")
	}
	// long and short inputs for the reducing decoder
	if DecodeScalarLEReduce([]byte{5}).Cmp(big.NewInt(5)) != 0 {
		t.Fatal("1-byte input")
	}
	long := bytes.Repeat([]byte{0xff}, 40)
	want := new(big.Int).Sub(new(big.Int).Lsh(bigOne, 320), bigOne)
	if DecodeScalarLEReduce(long).Cmp(want.Mod(want, R)) != 0 {
		t.Fatal("40-byte input")
	}
	// all-ones 32 bytes: non canonical
	if _, err := DecodeScalarLECanonical(bytes.Repeat([]byte{0xff}, 32)); err == nil {
		t.Fatal("2^256-1 accepted")
	}
	if EncodeScalarLE(big.NewInt(1)) != [32]byte{1} {
		t.Fatal("1 is not 01 00 00 ...")
	}
}

func TestIPAInsideDomain(t *testing.T) {
	if testing.Short() {
		t.Skip()
	}
	poly := detPoly("inside", 0)
	c := Commit(poly)
	for _, z := range []int64{0, 1, 128, 255} {
		zb := big.NewInt(z)
		proof := IPAProve(NewTranscript("ipa"), c, poly, zb)
		ok, err := IPAVerify(NewTranscript("ipa"), c, proof, zb, poly[z])
		if err != nil || !ok {
			t.Fatalf("z=%d rejected (%v)", z, err)
		}
		ok, _ = IPAVerify(NewTranscript("ipa"), c, proof, zb, poly[(z+1)%256])
		if ok {
			t.Fatalf("z=%d wrong value accepted", z)
		}
	}
}

func TestMultiProofRepeatedPointsAndCommitments(t *testing.T) {
	if testing.Short() {
		t.Skip()
	}
	// same polynomial opened at two points, and two polynomials opened at the
	// same point, in interleaved order
	f0, f1 := detPoly("rep", 0), detPoly("rep", 1)
	c0, c1 := Commit(f0), Commit(f1)
	Cs := []Point{c0, c1, c0, c1}
	fs := [][]*big.Int{f0, f1, f0, f1}
	zs := []uint8{3, 9, 9, 3}
	ys := []*big.Int{f0[3], f1[9], f0[9], f1[3]}
	proof, err := MultiProve(NewTranscript("vt"), Cs, fs, zs)
	if err != nil {
		t.Fatal(err)
	}
	ok, err := MultiVerify(NewTranscript("vt"), proof, Cs, ys, zs)
	if err != nil || !ok {
		t.Fatalf("rejected: %v", err)
	}
	// swapping two openings changes the transcript => reject
	ok, err = MultiVerify(NewTranscript("vt"), proof,
		[]Point{c1, c0, c0, c1}, []*big.Int{ys[1], ys[0], ys[2], ys[3]}, []uint8{9, 3, 9, 3})
	if err != nil || ok {
		t.Fatal("reordered openings accepted")
	}
	// tampering with D / a
	bad := proof
	bad.D = proof.D.Add(Generator())
	if ok, _ := MultiVerify(NewTranscript("vt"), bad, Cs, ys, zs); ok {
		t.Fatal("tampered D accepted")
	}
	bad = proof
	bad.IPA.A = frAdd(proof.IPA.A, bigOne)
	if ok, _ := MultiVerify(NewTranscript("vt"), bad, Cs, ys, zs); ok {
		t.Fatal("tampered a accepted")
	}
}

func TestConcurrentReaders(t *testing.T) {
	var wg sync.WaitGroup
	v := detPoly("conc", 0)[:8]
	want := Commit(v).Encode()
	for i := 0; i < 8; i++ {
		wg.Add(1)
		go func() {
			defer wg.Done()
			if Commit(v).Encode() != want {
				t.Error("concurrent commit mismatch")
			}
			_ = BVector(big.NewInt(1000))
			_ = CRS()
		}()
	}
	wg.Wait()
}

func TestTimings(t *testing.T) {
	if testing.Short() {
		t.Skip()
	}
	start := time.Now()
	crs()
	t.Logf("CRS generation (or cached): %v", time.Since(start))
	start = time.Now()
	table()
	t.Logf("commit table build (or cached): %v", time.Since(start))

	k := new(big.Int).Sub(R, big.NewInt(12345))
	g := Generator()
	start = time.Now()
	const nMul = 50
	for i := 0; i < nMul; i++ {
		g.Mul(k)
	}
	t.Logf("Point.Mul (253-bit scalar): %v", time.Since(start)/nMul)

	v := detPoly("timing", 0)
	start = time.Now()
	c := Commit(v)
	t.Logf("Commit (256 random scalars): %v", time.Since(start))

	f1, f2 := detPoly("timing", 1), detPoly("timing", 2)
	Cs := []Point{c, Commit(f1), Commit(f2)}
	fs := [][]*big.Int{v, f1, f2}
	zs := []uint8{1, 2, 3}
	ys := []*big.Int{v[1], f1[2], f2[3]}
	start = time.Now()
	proof, err := MultiProve(NewTranscript("t"), Cs, fs, zs)
	if err != nil {
		t.Fatal(err)
	}
	t.Logf("MultiProve (3 openings): %v", time.Since(start))
	start = time.Now()
	ok, err := MultiVerify(NewTranscript("t"), proof, Cs, ys, zs)
	if err != nil || !ok {
		t.Fatal("verify failed")
	}
	t.Logf("MultiVerify (3 openings): %v", time.Since(start))
}

func BenchmarkPointMul(b *testing.B) {
	k := new(big.Int).Sub(R, big.NewInt(12345))
	g := Generator()
	for i := 0; i < b.N; i++ {
		g.Mul(k)
	}
}

func BenchmarkCommit(b *testing.B) {
	v := detPoly("bench", 0)
	table()
	b.ResetTimer()
	for i := 0; i < b.N; i++ {
		Commit(v)
	}
}
