// instr rewrites a scratch copy of go-ipa so that every construct whose outcome
// depends on the scheduler, the machine or hidden runtime state goes through
// package verifsim. It never touches /repo. See /verif/DESIGN.md §2.1.
//
//	instr -dir <copy of repo> -meta <out.json> [-probes]
//
// Exit 0: copy instrumented. Exit 2: a construct it cannot classify.
package main

import (
	"encoding/json"
	"flag"
	"fmt"
	"go/ast"
	"go/format"
	"go/token"
	"go/types"
	"os"
	"path/filepath"
	"sort"
	"strings"

	"golang.org/x/tools/go/ast/astutil"
	"golang.org/x/tools/go/packages"
)

const modPath = "github.com/crate-crypto/go-ipa"
const simPath = modPath + "/verifsim"
const simName = "verifsim"

type meta struct {
	Sites         []string          `json:"sites"`
	Probes        []string          `json:"probes"`
	Counts        map[string]int    `json:"counts"`
	Files         []string          `json:"files_rewritten"`
	Refused       []string          `json:"refused"`
	Warnings      []string          `json:"warnings"`
	GlobalsByPkg  map[string]int    `json:"globals_by_pkg"`
	PkgDirs       map[string]string `json:"pkg_dirs"`
	ProbeExcluded []string          `json:"probe_excluded_pkgs"`
}

var (
	m        = meta{Sites: []string{"root"}, Counts: map[string]int{}, GlobalsByPkg: map[string]int{}, PkgDirs: map[string]string{}}
	fset     *token.FileSet
	root     string
	doProbes bool
)

func site(pos token.Pos, kind string) *ast.BasicLit {
	p := fset.Position(pos)
	rel, _ := filepath.Rel(root, p.Filename)
	m.Sites = append(m.Sites, fmt.Sprintf("%s:%d %s", rel, p.Line, kind))
	m.Counts[kind]++
	return &ast.BasicLit{Kind: token.INT, Value: fmt.Sprint(len(m.Sites) - 1)}
}

func sim(fn string) ast.Expr {
	return &ast.SelectorExpr{X: ast.NewIdent(simName), Sel: ast.NewIdent(fn)}
}

func call(fn string, args ...ast.Expr) *ast.CallExpr {
	return &ast.CallExpr{Fun: sim(fn), Args: args}
}

func refuse(pos token.Pos, format string, a ...interface{}) {
	m.Refused = append(m.Refused, fmt.Sprintf("%s: %s", fset.Position(pos), fmt.Sprintf(format, a...)))
}

func warn(pos token.Pos, format string, a ...interface{}) {
	m.Warnings = append(m.Warnings, fmt.Sprintf("%s: %s", fset.Position(pos), fmt.Sprintf(format, a...)))
}

type fileCtx struct {
	pkg     *packages.Package
	info    *types.Info
	file    *ast.File
	changed bool
	skip    map[ast.Node]bool // comm statements of select clauses: must stay raw
	atomicStmts map[*ast.ExprStmt]*ast.BasicLit // statement-level atomic calls: a Yield goes after them
	tmp     int
	probes  bool
}

func (c *fileCtx) tmpName(prefix string) *ast.Ident {
	c.tmp++
	return ast.NewIdent(fmt.Sprintf("_vs%s%d", prefix, c.tmp))
}

// funcOf returns the *types.Func a call expression's Fun refers to (or nil).
func (c *fileCtx) funcOf(fun ast.Expr) *types.Func {
	switch f := fun.(type) {
	case *ast.SelectorExpr:
		if sel := c.info.Selections[f]; sel != nil {
			if fn, ok := sel.Obj().(*types.Func); ok {
				return fn
			}
			return nil
		}
		if fn, ok := c.info.Uses[f.Sel].(*types.Func); ok {
			return fn
		}
	case *ast.Ident:
		if fn, ok := c.info.Uses[f].(*types.Func); ok {
			return fn
		}
	case *ast.ParenExpr:
		return c.funcOf(f.X)
	}
	return nil
}

func isChan(t types.Type) bool {
	if t == nil {
		return false
	}
	_, ok := t.Underlying().(*types.Chan)
	return ok
}

func isMap(t types.Type) bool {
	if t == nil {
		return false
	}
	_, ok := t.Underlying().(*types.Map)
	return ok
}

func isPtr(t types.Type) bool {
	if t == nil {
		return false
	}
	_, ok := t.Underlying().(*types.Pointer)
	return ok
}

// recvArg builds the receiver argument for a pointer-receiver method wrapper.
func (c *fileCtx) recvArg(x ast.Expr) ast.Expr {
	if isPtr(c.info.TypeOf(x)) {
		return x
	}
	return &ast.UnaryExpr{Op: token.AND, X: x}
}

func simpleExpr(e ast.Expr) bool {
	switch x := e.(type) {
	case *ast.Ident:
		return true
	case *ast.SelectorExpr:
		return simpleExpr(x.X)
	case *ast.IndexExpr:
		return simpleExpr(x.X) && simpleExpr(x.Index)
	case *ast.BasicLit:
		return true
	case *ast.ParenExpr:
		return simpleExpr(x.X)
	case *ast.StarExpr:
		return simpleExpr(x.X)
	}
	return false
}

// rewriteGo turns `go f(a, b)` into
//
//	{ _f := f; _a0, _a1 := a, b; verifsim.Go(site, func() { _f(_a0, _a1) }) }
//
// preserving the evaluation time of function value and arguments.
func (c *fileCtx) rewriteGo(g *ast.GoStmt) ast.Stmt {
	s := site(g.Pos(), "go")
	callx := g.Call
	var pre []ast.Stmt
	fun := callx.Fun
	// function value
	switch f := ast.Unparen(fun).(type) {
	case *ast.FuncLit:
		// evaluated in place: a literal has no evaluation-time dependence
	case *ast.Ident:
		if _, isFunc := c.info.Uses[f].(*types.Func); !isFunc {
			// a variable holding a func: bind now
			t := c.tmpName("f")
			pre = append(pre, &ast.AssignStmt{Lhs: []ast.Expr{t}, Tok: token.DEFINE, Rhs: []ast.Expr{fun}})
			fun = t
		}
	case *ast.SelectorExpr:
		if sel := c.info.Selections[f]; sel != nil && sel.Kind() == types.MethodVal {
			// method value: receiver is evaluated at go time
			t := c.tmpName("f")
			pre = append(pre, &ast.AssignStmt{Lhs: []ast.Expr{t}, Tok: token.DEFINE, Rhs: []ast.Expr{fun}})
			fun = t
		} else if _, isFunc := c.info.Uses[f.Sel].(*types.Func); !isFunc {
			t := c.tmpName("f")
			pre = append(pre, &ast.AssignStmt{Lhs: []ast.Expr{t}, Tok: token.DEFINE, Rhs: []ast.Expr{fun}})
			fun = t
		}
	default:
		t := c.tmpName("f")
		pre = append(pre, &ast.AssignStmt{Lhs: []ast.Expr{t}, Tok: token.DEFINE, Rhs: []ast.Expr{fun}})
		fun = t
	}
	// arguments
	args := make([]ast.Expr, len(callx.Args))
	var sig *types.Signature
	if t := c.info.TypeOf(callx.Fun); t != nil {
		sig, _ = t.Underlying().(*types.Signature)
	}
	for i, a := range callx.Args {
		tv := c.info.Types[a]
		if tv.Value != nil || tv.IsNil() {
			args[i] = a // constants and nil stay inline (":=" would give them default types)
			continue
		}
		if _, ok := ast.Unparen(a).(*ast.FuncLit); ok {
			args[i] = a
			continue
		}
		t := c.tmpName("a")
		var rhs ast.Expr = a
		// keep the parameter type for untyped non-constant expressions (e.g. shifts)
		if b, ok := tv.Type.(*types.Basic); ok && b.Info()&types.IsUntyped != 0 && sig != nil {
			warn(a.Pos(), "untyped non-constant go argument")
		}
		pre = append(pre, &ast.AssignStmt{Lhs: []ast.Expr{t}, Tok: token.DEFINE, Rhs: []ast.Expr{rhs}})
		args[i] = t
	}
	inner := &ast.CallExpr{Fun: fun, Args: args, Ellipsis: callx.Ellipsis}
	lit := &ast.FuncLit{
		Type: &ast.FuncType{Params: &ast.FieldList{}},
		Body: &ast.BlockStmt{List: []ast.Stmt{&ast.ExprStmt{X: inner}}},
	}
	goCall := &ast.ExprStmt{X: call("Go", s, lit)}
	if len(pre) == 0 {
		return goCall
	}
	return &ast.BlockStmt{List: append(pre, goCall)}
}

func (c *fileCtx) rewriteRangeChan(r *ast.RangeStmt, labeled bool) ast.Stmt {
	s := site(r.Pos(), "range-chan")
	ch := r.X
	var pre []ast.Stmt
	if !simpleExpr(ch) {
		if labeled {
			refuse(r.Pos(), "labeled range over a non-trivial channel expression")
			return r
		}
		t := c.tmpName("ch")
		pre = append(pre, &ast.AssignStmt{Lhs: []ast.Expr{t}, Tok: token.DEFINE, Rhs: []ast.Expr{ch}})
		ch = t
	}
	ok := c.tmpName("ok")
	recv := call("Recv2", ch, s)
	var first ast.Stmt
	if r.Key == nil {
		first = &ast.AssignStmt{Lhs: []ast.Expr{ast.NewIdent("_"), ok}, Tok: token.DEFINE, Rhs: []ast.Expr{recv}}
	} else if r.Tok == token.DEFINE {
		first = &ast.AssignStmt{Lhs: []ast.Expr{r.Key, ok}, Tok: token.DEFINE, Rhs: []ast.Expr{recv}}
	} else {
		// for x = range ch
		pre2 := &ast.DeclStmt{Decl: &ast.GenDecl{Tok: token.VAR, Specs: []ast.Spec{&ast.ValueSpec{Names: []*ast.Ident{ok}, Type: ast.NewIdent("bool")}}}}
		body := []ast.Stmt{
			pre2,
			&ast.AssignStmt{Lhs: []ast.Expr{r.Key, ok}, Tok: token.ASSIGN, Rhs: []ast.Expr{recv}},
			&ast.IfStmt{Cond: &ast.UnaryExpr{Op: token.NOT, X: ok}, Body: &ast.BlockStmt{List: []ast.Stmt{&ast.BranchStmt{Tok: token.BREAK}}}},
		}
		body = append(body, r.Body.List...)
		f := &ast.ForStmt{Body: &ast.BlockStmt{List: body}}
		if len(pre) > 0 {
			return &ast.BlockStmt{List: append(pre, f)}
		}
		return f
	}
	body := []ast.Stmt{
		first,
		&ast.IfStmt{Cond: &ast.UnaryExpr{Op: token.NOT, X: ok}, Body: &ast.BlockStmt{List: []ast.Stmt{&ast.BranchStmt{Tok: token.BREAK}}}},
	}
	body = append(body, r.Body.List...)
	f := &ast.ForStmt{Body: &ast.BlockStmt{List: body}}
	if len(pre) > 0 {
		return &ast.BlockStmt{List: append(pre, f)}
	}
	return f
}

func (c *fileCtx) rewriteRangeMap(r *ast.RangeStmt) {
	if r.Key == nil {
		return // `for range m`: order unobservable
	}
	if id, ok := r.Key.(*ast.Ident); ok && id.Name == "_" && r.Value == nil {
		return
	}
	if r.Tok != token.DEFINE && r.Value != nil {
		warn(r.Pos(), "map range with '=' and a value variable left un-instrumented")
		return
	}
	if !simpleExpr(r.X) && r.Value != nil {
		warn(r.Pos(), "map range over a non-trivial expression with value left un-instrumented")
		return
	}
	s := site(r.Pos(), "range-map")
	mexpr := r.X
	keys := call("MapKeys", mexpr, s)
	if r.Value != nil {
		if vid, ok := r.Value.(*ast.Ident); !ok || vid.Name != "_" {
			// v := m[k] at the top of the body
			kid, ok := r.Key.(*ast.Ident)
			if !ok || kid.Name == "_" {
				kid = c.tmpName("k")
				r.Key = kid
			}
			as := &ast.AssignStmt{Lhs: []ast.Expr{r.Value}, Tok: token.DEFINE, Rhs: []ast.Expr{&ast.IndexExpr{X: mexpr, Index: ast.NewIdent(kid.Name)}}}
			use := &ast.AssignStmt{Lhs: []ast.Expr{ast.NewIdent("_")}, Tok: token.ASSIGN, Rhs: []ast.Expr{ast.NewIdent(r.Value.(*ast.Ident).Name)}}
			r.Body.List = append([]ast.Stmt{as, use}, r.Body.List...)
		}
	}
	r.Value = r.Key
	r.Key = ast.NewIdent("_")
	r.X = keys
	c.changed = true
}

var refusedFuncs = map[string]string{
	"time.NewTimer":           "timer",
	"time.NewTicker":          "ticker",
	"time.Tick":               "ticker",
	"context.WithTimeout":     "context deadline",
	"context.WithDeadline":    "context deadline",
	"(*sync.Cond).Signal":     "",
	"(*sync.Cond).Broadcast":  "",
	"(*sync.RWMutex).RLocker": "RLocker escapes instrumentation",
}

func (c *fileCtx) apply() {
	c.skip = map[ast.Node]bool{}
	c.atomicStmts = map[*ast.ExprStmt]*ast.BasicLit{}
	pre := func(cur *astutil.Cursor) bool {
		n := cur.Node()
		if n == nil {
			return true
		}
		if c.skip[n] {
			return false
		}
		switch x := n.(type) {
		case *ast.SelectStmt:
			blocking := true
			for _, cl := range x.Body.List {
				cc := cl.(*ast.CommClause)
				if cc.Comm != nil {
					c.skip[cc.Comm] = true
				} else {
					blocking = false
				}
			}
			_ = blocking
		}
		return true
	}
	post := func(cur *astutil.Cursor) bool {
		n := cur.Node()
		switch x := n.(type) {
		case *ast.SelectStmt:
			s := site(x.Pos(), "select")
			for _, cl := range x.Body.List {
				cc := cl.(*ast.CommClause)
				cc.Body = append([]ast.Stmt{&ast.ExprStmt{X: call("Woke", s)}}, cc.Body...)
			}
			preStmt := &ast.ExprStmt{X: call("SelectPre", s)}
			if _, ok := cur.Parent().(*ast.LabeledStmt); ok {
				refuse(x.Pos(), "labeled select statement")
				return true
			}
			if cur.Index() >= 0 {
				cur.InsertBefore(preStmt)
			} else {
				cur.Replace(&ast.BlockStmt{List: []ast.Stmt{preStmt, x}})
			}
			c.changed = true
		case *ast.GoStmt:
			cur.Replace(c.rewriteGo(x))
			c.changed = true
		case *ast.SendStmt:
			cur.Replace(&ast.ExprStmt{X: call("Send", x.Chan, x.Value, site(x.Pos(), "send"))})
			c.changed = true
		case *ast.UnaryExpr:
			if x.Op != token.ARROW {
				return true
			}
			two := false
			switch p := cur.Parent().(type) {
			case *ast.AssignStmt:
				two = len(p.Lhs) == 2 && len(p.Rhs) == 1
			case *ast.ValueSpec:
				two = len(p.Names) == 2 && len(p.Values) == 1
			}
			fn := "Recv"
			if two {
				fn = "Recv2"
			}
			cur.Replace(call(fn, x.X, site(x.Pos(), "recv")))
			c.changed = true
		case *ast.RangeStmt:
			t := c.info.TypeOf(x.X)
			if isChan(t) {
				_, labeled := cur.Parent().(*ast.LabeledStmt)
				cur.Replace(c.rewriteRangeChan(x, labeled))
				c.changed = true
			} else if isMap(t) {
				c.rewriteRangeMap(x)
			}
		case *ast.CallExpr:
			c.rewriteCall(cur, x)
		case *ast.ExprStmt:
			if s, ok := c.atomicStmts[x]; ok {
				y := &ast.ExprStmt{X: call("Yield", s)}
				if cur.Index() >= 0 {
					cur.InsertAfter(y)
				} else {
					cur.Replace(&ast.BlockStmt{List: []ast.Stmt{x, y}})
				}
				c.changed = true
			}
		}
		return true
	}
	astutil.Apply(c.file, pre, post)
	if c.probes {
		c.addProbes()
	}
}

func (c *fileCtx) rewriteCall(cur *astutil.Cursor, x *ast.CallExpr) {
	// builtin close
	if id, ok := ast.Unparen(x.Fun).(*ast.Ident); ok {
		if b, ok := c.info.Uses[id].(*types.Builtin); ok && b.Name() == "close" && len(x.Args) == 1 {
			cur.Replace(call("Close", x.Args[0], site(x.Pos(), "close")))
			c.changed = true
			return
		}
	}
	fn := c.funcOf(x.Fun)
	if fn == nil {
		return
	}
	full := fn.FullName()
	sel, _ := ast.Unparen(x.Fun).(*ast.SelectorExpr)
	switch full {
	case "runtime.NumCPU":
		cur.Replace(call("NumCPU"))
		m.Counts["numcpu"]++
		c.changed = true
	case "runtime.GOMAXPROCS":
		// GOMAXPROCS(0) read as a parallelism degree: its own seam (it need not equal NumCPU)
		if len(x.Args) == 1 {
			if tv := c.info.Types[x.Args[0]]; tv.Value != nil && tv.Value.String() == "0" {
				cur.Replace(call("GoMaxProcs"))
				m.Counts["gomaxprocs"]++
				c.changed = true
				return
			}
		}
		refuse(x.Pos(), "runtime.GOMAXPROCS with a non-zero argument")
	case "runtime.Gosched":
		cur.Replace(call("Yield", site(x.Pos(), "gosched")))
		c.changed = true
	case "time.Sleep":
		cur.Replace(call("Sleep", x.Args[0], site(x.Pos(), "sleep")))
		c.changed = true
	case "(*sync.WaitGroup).Wait":
		cur.Replace(call("WGWait", c.recvArg(sel.X), site(x.Pos(), "wg-wait")))
		c.changed = true
	case "(*sync.WaitGroup).Done":
		cur.Replace(call("WGDone", c.recvArg(sel.X), site(x.Pos(), "wg-done")))
		c.changed = true
	case "(*sync.Mutex).Lock", "(*sync.RWMutex).Lock":
		cur.Replace(call("Lock", c.recvArg(sel.X), site(x.Pos(), "lock")))
		c.changed = true
	case "(*sync.RWMutex).RLock":
		cur.Replace(call("RLock", c.recvArg(sel.X), site(x.Pos(), "rlock")))
		c.changed = true
	case "(*sync.Once).Do":
		cur.Replace(call("OnceDo", c.recvArg(sel.X), x.Args[0], site(x.Pos(), "once")))
		c.changed = true
	case "(*sync.Cond).Wait":
		cur.Replace(call("CondWait", c.recvArg(sel.X), site(x.Pos(), "cond-wait")))
		c.changed = true
	case "(*sync.Pool).Get":
		cur.Replace(call("PoolGet", c.recvArg(sel.X), site(x.Pos(), "pool-get")))
		c.changed = true
	case "(*sync.Pool).Put":
		cur.Replace(call("PoolPut", c.recvArg(sel.X), x.Args[0], site(x.Pos(), "pool-put")))
		c.changed = true
	default:
		if why, bad := refusedFuncs[full]; bad && why != "" {
			refuse(x.Pos(), "%s (%s) is not supported by the simulator", full, why)
		}
		if fn.Pkg() != nil && fn.Pkg().Path() == "sync/atomic" {
			// a scheduling point right after every atomic operation
			s := site(x.Pos(), "atomic")
			sig, _ := fn.Type().(*types.Signature)
			_, isStmt := cur.Parent().(*ast.ExprStmt)
			if sig != nil && sig.Results().Len() == 1 && !isStmt {
				cp := *x
				cur.Replace(call("After", &cp, s))
				c.changed = true
			} else if isStmt {
				c.atomicStmts[cur.Parent().(*ast.ExprStmt)] = s
			}
		}
	}
}

// addProbes inserts a counter at the entry of every block of every function.
func (c *fileCtx) addProbes() {
	probe := func(pos token.Pos) ast.Stmt {
		p := fset.Position(pos)
		rel, _ := filepath.Rel(root, p.Filename)
		m.Probes = append(m.Probes, fmt.Sprintf("%s:%d", rel, p.Line))
		c.changed = true
		return &ast.ExprStmt{X: call("Probe", &ast.BasicLit{Kind: token.INT, Value: fmt.Sprint(len(m.Probes) - 1)})}
	}
	var visit func(n ast.Node) bool
	visit = func(n ast.Node) bool {
		switch x := n.(type) {
		case *ast.FuncDecl:
			if x.Body != nil && x.Pos().IsValid() {
				x.Body.List = append([]ast.Stmt{probe(x.Body.Pos())}, x.Body.List...)
			}
		case *ast.FuncLit:
			if x.Pos().IsValid() {
				x.Body.List = append([]ast.Stmt{probe(x.Body.Pos())}, x.Body.List...)
			}
		case *ast.IfStmt:
			if x.Pos().IsValid() {
				x.Body.List = append([]ast.Stmt{probe(x.Body.Pos())}, x.Body.List...)
				if eb, ok := x.Else.(*ast.BlockStmt); ok {
					eb.List = append([]ast.Stmt{probe(eb.Pos())}, eb.List...)
				}
			}
		case *ast.ForStmt:
			if x.Pos().IsValid() {
				x.Body.List = append([]ast.Stmt{probe(x.Body.Pos())}, x.Body.List...)
			}
		case *ast.RangeStmt:
			if x.Pos().IsValid() {
				x.Body.List = append([]ast.Stmt{probe(x.Body.Pos())}, x.Body.List...)
			}
		case *ast.CaseClause:
			if x.Pos().IsValid() {
				x.Body = append([]ast.Stmt{probe(x.Pos())}, x.Body...)
			}
		}
		return true
	}
	ast.Inspect(c.file, visit)
}

func fixImports(f *ast.File, changed bool) {
	if changed {
		astutil.AddNamedImport(fset, f, simName, simPath)
	}
	for _, p := range []string{"runtime", "time"} {
		if astutil.UsesImport(f, p) {
			continue
		}
		unnamed := false
		for _, imp := range f.Imports {
			if imp != nil && imp.Path != nil && imp.Path.Value == `"`+p+`"` && imp.Name == nil {
				unnamed = true
			}
		}
		if unnamed {
			astutil.DeleteImport(fset, f, p)
		}
	}
}

func genGlobals(p *packages.Package, dir string) {
	scope := p.Types.Scope()
	var names []string
	for _, n := range scope.Names() {
		if v, ok := scope.Lookup(n).(*types.Var); ok && n != "_" {
			_ = v
			names = append(names, n)
		}
	}
	sort.Strings(names)
	var b strings.Builder
	fmt.Fprintf(&b, "// Code generated by /verif/instr. DO NOT EDIT.\n\npackage %s\n\n", p.Name)
	fmt.Fprintf(&b, "// VerifGlobals returns pointers to every package-level variable (purity fingerprints).\nfunc VerifGlobals() map[string]interface{} {\n\treturn map[string]interface{}{\n")
	for _, n := range names {
		fmt.Fprintf(&b, "\t\t%q: &%s,\n", n, n)
	}
	fmt.Fprintf(&b, "\t}\n}\n")
	if err := os.WriteFile(filepath.Join(dir, "zz_verif_globals.go"), []byte(b.String()), 0o644); err != nil {
		fatal(err)
	}
	m.GlobalsByPkg[p.PkgPath] = len(names)
}

func fatal(err interface{}) {
	fmt.Fprintln(os.Stderr, "instr:", err)
	os.Exit(2)
}

func main() {
	dir := flag.String("dir", "", "scratch copy of the repository")
	metaOut := flag.String("meta", "", "where to write the site/probe tables")
	flag.BoolVar(&doProbes, "probes", true, "insert block probes")
	flag.Parse()
	if *dir == "" {
		fatal("need -dir")
	}
	var err error
	root, err = filepath.Abs(*dir)
	if err != nil {
		fatal(err)
	}
	fset = token.NewFileSet()
	cfg := &packages.Config{
		Mode:  packages.NeedName | packages.NeedFiles | packages.NeedCompiledGoFiles | packages.NeedSyntax | packages.NeedTypes | packages.NeedTypesInfo | packages.NeedImports | packages.NeedDeps,
		Dir:   root,
		Fset:  fset,
		Tests: false,
		Env:   append(os.Environ(), "GOFLAGS=-mod=mod", "GOPROXY=off", "GOSUMDB=off"),
	}
	pkgs, err := packages.Load(cfg, "./...")
	if err != nil {
		fatal(err)
	}
	bad := false
	for _, p := range pkgs {
		for _, e := range p.Errors {
			fmt.Fprintln(os.Stderr, "instr: load:", e)
			bad = true
		}
	}
	if bad {
		os.Exit(2)
	}
	sort.Slice(pkgs, func(i, j int) bool { return pkgs[i].PkgPath < pkgs[j].PkgPath })
	noProbe := map[string]bool{modPath + "/bandersnatch/fr": true, modPath + "/bandersnatch/fp": true, modPath + "/test_helper": true}
	for k := range noProbe {
		m.ProbeExcluded = append(m.ProbeExcluded, k)
	}
	sort.Strings(m.ProbeExcluded)
	for _, p := range pkgs {
		if p.PkgPath == simPath || strings.HasPrefix(p.PkgPath, simPath+"/") {
			continue
		}
		if len(p.Syntax) == 0 {
			continue
		}
		var pdir string
		for i, f := range p.Syntax {
			fname := p.CompiledGoFiles[i]
			if !strings.HasPrefix(fname, root) {
				continue
			}
			pdir = filepath.Dir(fname)
			base := filepath.Base(fname)
			if strings.HasPrefix(base, "zz_verif") {
				continue
			}
			// errgroup import swap
			swapped := false
			for _, imp := range f.Imports {
				if imp.Path.Value == `"golang.org/x/sync/errgroup"` {
					imp.Path.Value = `"` + simPath + `/errgroup"`
					swapped = true
					m.Counts["errgroup-import"]++
				}
			}
			c := &fileCtx{pkg: p, info: p.TypesInfo, file: f, probes: doProbes && !noProbe[p.PkgPath]}
			c.apply()
			if !c.changed && !swapped {
				continue
			}
			fixImports(f, c.changed)
			var sb strings.Builder
			if err := format.Node(&sb, fset, f); err != nil {
				fatal(fmt.Sprintf("%s: %v", fname, err))
			}
			if err := os.WriteFile(fname, []byte(sb.String()), 0o644); err != nil {
				fatal(err)
			}
			rel, _ := filepath.Rel(root, fname)
			m.Files = append(m.Files, rel)
		}
		if pdir != "" {
			genGlobals(p, pdir)
			rel, _ := filepath.Rel(root, pdir)
			m.PkgDirs[p.PkgPath] = rel
		}
	}
	// site table for the runtime
	var b strings.Builder
	b.WriteString("// Code generated by /verif/instr. DO NOT EDIT.\n\npackage verifsim\n\nfunc init() {\n\tRegisterSites([]string{\n")
	for _, s := range m.Sites {
		fmt.Fprintf(&b, "\t\t%q,\n", s)
	}
	b.WriteString("\t})\n}\n")
	if err := os.MkdirAll(filepath.Join(root, "verifsim"), 0o755); err != nil {
		fatal(err)
	}
	if err := os.WriteFile(filepath.Join(root, "verifsim", "zz_sites.go"), []byte(b.String()), 0o644); err != nil {
		fatal(err)
	}
	if *metaOut != "" {
		js, _ := json.MarshalIndent(&m, "", " ")
		if err := os.WriteFile(*metaOut, js, 0o644); err != nil {
			fatal(err)
		}
	}
	if len(m.Refused) > 0 {
		for _, r := range m.Refused {
			fmt.Fprintln(os.Stderr, "instr: refused:", r)
		}
		os.Exit(2)
	}
	fmt.Printf("instr: %d files rewritten, %d sites, %d probes, counts=%v\n", len(m.Files), len(m.Sites), len(m.Probes), m.Counts)
}
